"""Entry point: python harness/main.py <ID> [--tier quick|thorough] [--replay file]"""
import os
import sys

sys.path.insert(0, os.path.dirname(os.path.dirname(os.path.abspath(__file__))))

from harness import boot  # noqa: E402


def main(argv):
    import argparse
    ap = argparse.ArgumentParser()
    ap.add_argument("prop")
    ap.add_argument("--tier", default=os.environ.get("VERIF_TIER") or "quick",
                    choices=["quick", "thorough"])
    ap.add_argument("--replay")
    ap.add_argument("--seed", type=int, default=None)
    args = ap.parse_args(argv)
    try:
        seed = args.seed if args.seed is not None else int(os.environ.get("VERIF_SEED", "1") or 1)
    except ValueError:
        seed = 1
    try:
        boot.init()
        from harness import runner
        import props
        prop = props.load(args.prop.upper())
        return runner.main(prop, args.tier, seed, args.replay)
    except boot.HarnessError as error:
        sys.stderr.write("HARNESS ERROR: %s\n" % error)
        return 2
    except (SystemExit, KeyboardInterrupt):
        raise
    except BaseException:
        import traceback
        sys.stderr.write("HARNESS ERROR:\n" + traceback.format_exc())
        return 2


if __name__ == "__main__":
    sys.exit(main(sys.argv[1:]))
