"""Independent RFC 6455 codec (shares no code with lomond).

* ``build_frame``  - server-side frame builder with every knob exposed (any
  FIN/RSV/opcode/mask bit, any of the three length forms regardless of the
  length, so non-minimal encodings and lies can be produced).
* ``decode_client_frames`` - strict decoder for what a *client* may write:
  whole frames only, masked, minimal length form.  Says precisely why a byte
  string is not such a sequence.
* ``split_http`` - cut the upgrade request off the front of the client's
  write stream.
"""
import struct

CONT, TEXT, BINARY, CLOSE, PING, PONG = 0, 1, 2, 8, 9, 10
OPNAMES = {0: "cont", 1: "text", 2: "binary", 8: "close", 9: "ping", 10: "pong"}


class WireError(Exception):
    pass


def _xor(key, data):
    if not data:
        return b""
    n = len(data)
    k = (key * (n // 4 + 1))[:n]
    return (int.from_bytes(data, "big") ^ int.from_bytes(k, "big")).to_bytes(n, "big")


def build_frame(opcode, payload=b"", fin=1, rsv1=0, rsv2=0, rsv3=0,
                mask=None, form=None, declared_len=None):
    """Build one frame.

    form: None (minimal) | 7 | 16 | 64  - which length encoding to use.
    declared_len: length to announce (defaults to len(payload)).
    mask: None or a 4-byte key (server frames are normally unmasked).
    """
    n = len(payload) if declared_len is None else declared_len
    if form is None:
        form = 7 if n < 126 else (16 if n < 65536 else 64)
    b0 = (fin << 7) | (rsv1 << 6) | (rsv2 << 5) | (rsv3 << 4) | (opcode & 15)
    mbit = 0x80 if mask is not None else 0
    if form == 7:
        if n > 125:
            raise WireError("length %d does not fit the 7-bit form" % n)
        head = bytes([b0, mbit | n])
    elif form == 16:
        if n > 65535:
            raise WireError("length %d does not fit the 16-bit form" % n)
        head = bytes([b0, mbit | 126]) + struct.pack("!H", n)
    elif form == 64:
        head = bytes([b0, mbit | 127]) + struct.pack("!Q", n)
    else:
        raise WireError("bad form %r" % (form,))
    if mask is not None:
        return head + mask + _xor(mask, payload)
    return head + bytes(payload)


def close_payload(code, reason=b""):
    if code is None:
        return b""
    return struct.pack("!H", code) + reason


class Frame(object):
    __slots__ = ("fin", "rsv1", "rsv2", "rsv3", "opcode", "masked", "key",
                 "payload", "form", "start", "end")

    def __repr__(self):
        return "<%s fin=%d rsv=%d%d%d len=%d>" % (
            OPNAMES.get(self.opcode, self.opcode), self.fin, self.rsv1,
            self.rsv2, self.rsv3, len(self.payload))

    def as_json(self):
        p = self.payload
        return {"op": OPNAMES.get(self.opcode, self.opcode), "fin": self.fin,
                "rsv1": self.rsv1, "len": len(p),
                "payload": p[:24].hex() + ("..." if len(p) > 24 else "")}


def parse_frame(buf, pos=0):
    """Parse one frame at buf[pos:]; return (Frame, newpos) or (None, pos)
    when the bytes end before the frame does."""
    n = len(buf)
    if n - pos < 2:
        return None, pos
    b0, b1 = buf[pos], buf[pos + 1]
    f = Frame()
    f.start = pos
    f.fin = b0 >> 7
    f.rsv1 = (b0 >> 6) & 1
    f.rsv2 = (b0 >> 5) & 1
    f.rsv3 = (b0 >> 4) & 1
    f.opcode = b0 & 15
    f.masked = b1 >> 7
    ln = b1 & 127
    p = pos + 2
    f.form = 7
    if ln == 126:
        if n - p < 2:
            return None, pos
        (ln,) = struct.unpack_from("!H", buf, p)
        p += 2
        f.form = 16
    elif ln == 127:
        if n - p < 8:
            return None, pos
        (ln,) = struct.unpack_from("!Q", buf, p)
        p += 8
        f.form = 64
    f.key = None
    if f.masked:
        if n - p < 4:
            return None, pos
        f.key = bytes(buf[p:p + 4])
        p += 4
    if n - p < ln:
        return None, pos
    raw = bytes(buf[p:p + ln])
    f.payload = _xor(f.key, raw) if f.masked else raw
    f.end = p + ln
    return f, f.end


def parse_header(buf, pos=0):
    """Header fields of a possibly incomplete frame: (Frame without payload,
    declared length) or (None, None) if even the header is incomplete."""
    n = len(buf)
    if n - pos < 2:
        return None, None
    b0, b1 = buf[pos], buf[pos + 1]
    f = Frame()
    f.start = pos
    f.fin = b0 >> 7
    f.rsv1 = (b0 >> 6) & 1
    f.rsv2 = (b0 >> 5) & 1
    f.rsv3 = (b0 >> 4) & 1
    f.opcode = b0 & 15
    f.masked = b1 >> 7
    ln = b1 & 127
    p = pos + 2
    f.form = 7
    if ln == 126:
        if n - p < 2:
            return None, None
        (ln,) = struct.unpack_from("!H", buf, p)
        f.form = 16
    elif ln == 127:
        if n - p < 8:
            return None, None
        (ln,) = struct.unpack_from("!Q", buf, p)
        f.form = 64
    f.key = None
    f.payload = b""
    f.end = None
    return f, ln


def decode_frames(buf):
    """Lenient: parse as many whole frames as possible; return (frames, rest)."""
    frames = []
    pos = 0
    while True:
        f, pos2 = parse_frame(buf, pos)
        if f is None:
            return frames, bytes(buf[pos:])
        frames.append(f)
        pos = pos2


def check_client_frame(f):
    """Return a list of reasons why ``f`` is not a valid RFC 6455 client frame."""
    bad = []
    if not f.masked:
        bad.append("not masked")
    n = len(f.payload)
    minimal = 7 if n < 126 else (16 if n < 65536 else 64)
    if f.form != minimal:
        bad.append("non-minimal length form %d for %d bytes" % (f.form, n))
    if f.opcode not in OPNAMES:
        bad.append("reserved opcode %d" % f.opcode)
    if f.opcode >= 8:
        if n > 125:
            bad.append("control payload %d > 125" % n)
        if not f.fin:
            bad.append("fragmented control frame")
        if f.rsv1:
            bad.append("rsv1 on control frame")
    if f.rsv2 or f.rsv3:
        bad.append("rsv2/3 set")
    return bad


def decode_client_frames(buf):
    """Strict: ``buf`` must be a sequence of whole valid client frames.
    Returns (frames, problems)."""
    frames, rest = decode_frames(buf)
    problems = []
    for i, f in enumerate(frames):
        for why in check_client_frame(f):
            problems.append("frame %d: %s" % (i, why))
    if rest:
        problems.append("%d trailing bytes that are not a whole frame" % len(rest))
    return frames, problems


def split_http(buf):
    """Return (header_block_including_terminator, rest) or (None, buf)."""
    i = bytes(buf).find(b"\r\n\r\n")
    if i < 0:
        return None, bytes(buf)
    return bytes(buf[:i + 4]), bytes(buf[i + 4:])


def selftest():
    # RFC 6455 section 5.7 examples
    assert build_frame(TEXT, b"Hello") == bytes.fromhex("810548656c6c6f")
    f, p = parse_frame(bytes.fromhex("818537fa213d7f9f4d5158"))
    assert f.payload == b"Hello" and f.masked and f.fin and f.opcode == TEXT and p == 11
    assert build_frame(TEXT, b"Hel", fin=0) + build_frame(CONT, b"lo") == \
        bytes.fromhex("010348656c" "80026c6f")
    assert build_frame(PING, b"Hello") == bytes.fromhex("890548656c6c6f")
    assert build_frame(BINARY, b"\0" * 256)[:4] == bytes.fromhex("827e0100")
    assert build_frame(BINARY, b"\0" * 65536)[:10] == bytes.fromhex("827f0000000000010000")
    assert build_frame(PONG, b"Hello", mask=bytes.fromhex("37fa213d")) == \
        bytes.fromhex("8a8537fa213d7f9f4d5158")
    for n in (0, 1, 125, 126, 127, 65535, 65536, 70001):
        for key in (b"\0\0\0\0", b"\xff\xff\xff\xff", b"\x01\x02\x03\x04"):
            body = bytes((i * 7 + n) & 255 for i in range(n))
            raw = build_frame(BINARY, body, mask=key)
            frames, problems = decode_client_frames(raw + raw)
            assert not problems, problems
            assert len(frames) == 2 and frames[1].payload == body and frames[0].key == key
    frames, problems = decode_client_frames(build_frame(TEXT, b"x"))
    assert problems == ["frame 0: not masked"]
    frames, problems = decode_client_frames(build_frame(TEXT, b"x", mask=b"abcd", form=16))
    assert problems and "non-minimal" in problems[0]
    frames, problems = decode_client_frames(build_frame(TEXT, b"xyz", mask=b"abcd")[:-1])
    assert problems and "trailing" in problems[0]
    frames, problems = decode_client_frames(build_frame(PING, b"x" * 126, mask=b"abcd"))
    assert any("control payload" in p for p in problems)
