"""Shared runner: replays, enumerations, Hypothesis shards, evidence, verdict.

Exit codes: 0 held (maybe KNOWN-FINDING lines), 1 VIOLATION, 2 harness error.
"""
import hashlib
import json
import multiprocessing
import logging
import os
import signal
import sys
import time
import traceback

from . import boot

VERIF = boot.VERIF
NPROC = int(os.environ.get("VERIF_NPROC", "16"))
OUT_DIR = os.path.join(VERIF, "out")
CASE_WALL_LIMIT = 120  # seconds of real time for ONE case that normally takes milliseconds


from . import rules_more

class WallClockHang(BaseException):
    pass


class Result(object):
    __slots__ = ("ok", "signature", "detail", "labels", "nontrivial", "sub")

    def __init__(self, ok, signature=None, detail=None, labels=(), nontrivial=False, sub=()):
        # sub: [(key, nontrivial)] - executions performed inside this case (fault
        # enumerations run many faulted executions per generated base scenario)
        self.sub = sub
        self.ok = ok
        self.signature = signature
        self.detail = detail
        self.labels = labels
        self.nontrivial = nontrivial


def held(labels=(), nontrivial=False, sub=()):
    return Result(True, None, None, labels, nontrivial, sub)


def inconclusive(reason, labels=(), sub=()):
    """The execution did not take the shape this property's oracle is about (e.g. the connection never got Ready in
    a timing check): neither held nor violated.  Counted under a label, never trivial."""
    labels = set(labels)
    labels.add("inconclusive:" + reason)
    return Result(True, None, None, labels, False, sub)


def failed(signature, detail, labels=(), nontrivial=False, sub=()):
    return Result(False, signature, detail, labels, nontrivial, sub)


class Enumeration(object):
    """A finite, seed-independent family of cases.  ``make()`` returns an
    iterator; shard k of n takes every n-th item."""

    def __init__(self, name, make, exhaustive=True, tiers=("quick", "thorough")):
        self.name = name
        self.make = make
        self.exhaustive = exhaustive
        self.tiers = tiers


def after_every_prelude(battery, name="battery_after_every_kind_of_earlier_connection"):
    """Enumeration: each case of a small fixed battery, preceded by EVERY kind of earlier connection (build.PRELUDE_KINDS)
    x on the same WebSocket object / another one x ended by EOF / reset."""
    def make():
        from . import build
        for kind in build.PRELUDE_KINDS:
            for same, managed in ((True, False), (True, True), (False, False)):
                # (managed: the earlier connection was made inside a "with ws:" block on the same object)
                for end in build.PRELUDE_ENDS:
                    for case in battery:
                        yield dict(case, prelude={"kind": kind, "same": same, "end": end, "with": managed})
    return Enumeration(name, make, exhaustive=True)


def with_noise(battery, name="battery_with_rejected_application_calls"):
    """Enumeration: each case of a small fixed battery while the application tries EVERY kind of call with unsendable
    arguments (simnet.BAD_CALLS), at Ready and at the first message, catching the error."""
    def make():
        from . import simnet
        for kind in simnet.BAD_CALLS:
            for when in (["event", "ready", 0], ["msg", 0]):
                for case in battery:
                    yield dict(case, noise_calls=[{"when": when, "do": kind}])
    return Enumeration(name, make, exhaustive=True)


def with_wsopts(battery, name="battery_with_every_constructor_argument_variant"):
    """Enumeration: each case of a small fixed battery with every variant of the WebSocket() constructor arguments that
    only shape the upgrade request (gen.WSOPTS_VALUES): they must make no difference to anything else."""
    def make():
        from . import gen
        for key, values in sorted(gen.WSOPTS_VALUES.items()):
            for v in values:
                for case in battery:
                    yield dict(case, wsopts_noise={key: v})
    return Enumeration(name, make, exhaustive=True)


def with_debug_log(battery, name="battery_with_debug_logging_enabled"):
    """Enumeration: each case of a small fixed battery while the application has DEBUG logging switched on for the
    'lomond' logger (every record is formatted by a handler, so the arguments of every log call are evaluated)."""
    def make():
        for case in battery:
            yield dict(case, debug_log=True)
    return Enumeration(name, make, exhaustive=True)


class _FormattingSink(logging.Handler):
    """Formats every record (so %-arguments and their repr() are evaluated) and discards the text."""

    def emit(self, record):
        try:
            self.format(record)
        except Exception:       # a broken log call is not this harness's business
            pass


_SINK = _FormattingSink()


def with_companion(battery, name="battery_with_a_second_live_connection"):
    """Enumeration: each case of a small fixed battery while a SECOND connection is alive in the same process
    (simnet.Companion), in both modes."""
    def make():
        for mode in ("interleaved", "blocked_in_send"):
            for case in battery:
                yield dict(case, companion={"mode": mode})
    return Enumeration(name, make, exhaustive=True)


class Prop(object):
    id = None
    level = "exploration"
    rule = ""
    assumptions = ()
    examples = {"quick": 2000, "thorough": 50000}
    shrink_budget_s = 25.0

    def selftest(self):
        pass

    def strategy(self, tier):
        return None

    def run_case(self, case):
        raise NotImplementedError

    def enumerations(self, tier):
        return []

    def extra(self, tier, seed, acc):
        """Optional additional stage run in the parent (e.g. real sockets)."""
        return None


def canon(case):
    return json.dumps(case, sort_keys=True, separators=(",", ":"), default=_default)


def _default(o):
    if isinstance(o, (bytes, bytearray)):
        return {"hex": bytes(o).hex()}
    if isinstance(o, (set, frozenset)):
        return sorted(o)
    return repr(o)


def case_hash(case):
    return hashlib.blake2b(canon(case).encode(), digest_size=8).digest()


def clip(obj, limit=160):
    """Shorten long strings so that samples stay readable."""
    if isinstance(obj, str):
        return obj if len(obj) <= limit else obj[:limit] + "...(%d chars)" % len(obj)
    if isinstance(obj, (bytes, bytearray)):
        return clip(bytes(obj).hex(), limit)
    if isinstance(obj, dict):
        return {str(k): clip(v, limit) for k, v in obj.items() if not str(k).startswith("_")}
    if isinstance(obj, (list, tuple)):
        if len(obj) > 40:
            return [clip(v, limit) for v in obj[:40]] + ["...(%d items)" % len(obj)]
        return [clip(v, limit) for v in obj]
    return obj


class Acc(object):
    """Counters of one worker; merged in the parent."""

    def __init__(self):
        self.evaluations = 0
        self.nontrivial = set()
        self.labels = {}
        self.samples = []
        self.excluded = {}        # signature -> count
        self.excluded_samples = {}
        self.failure = None       # (signature, detail, case)
        self.stages = {}

    def note(self, case, res, known):
        self.evaluations += 1
        for lab in res.labels:
            if isinstance(lab, tuple):   # (name, amount): a measured quantity
                self.labels[lab[0]] = self.labels.get(lab[0], 0) + lab[1]
            else:
                self.labels[lab] = self.labels.get(lab, 0) + 1
        if res.sub:
            base = canon(case)
            for key, nt in res.sub:
                self.evaluations += 1
                if nt:
                    h = hashlib.blake2b((base + "|" + str(key)).encode(), digest_size=8).digest()
                    if h not in self.nontrivial:
                        self.nontrivial.add(h)
                        if len(self.samples) < 4:
                            self.samples.append({"base_case": clip(case), "sub_execution": str(key)})
        if res.nontrivial:
            h = case_hash(case)
            if h not in self.nontrivial:
                self.nontrivial.add(h)
                if len(self.samples) < 4:
                    self.samples.append(clip(case))
        if not res.ok and res.signature in known:
            self.excluded[res.signature] = self.excluded.get(res.signature, 0) + 1
            if res.signature not in self.excluded_samples:
                self.excluded_samples[res.signature] = {"case": clip(case), "detail": res.detail}
            return True
        return res.ok

    def merge(self, other):
        self.evaluations += other.evaluations
        self.nontrivial |= other.nontrivial
        for k, v in other.labels.items():
            self.labels[k] = self.labels.get(k, 0) + v
        for s in other.samples:
            if len(self.samples) < 8:
                self.samples.append(s)
        for k, v in other.excluded.items():
            self.excluded[k] = self.excluded.get(k, 0) + v
        for k, v in other.excluded_samples.items():
            self.excluded_samples.setdefault(k, v)
        if other.failure and not self.failure:
            self.failure = other.failure
        for k, v in other.stages.items():
            a = self.stages.setdefault(k, {"evaluations": 0})
            a["evaluations"] += v.get("evaluations", 0)
            for kk, vv in v.items():
                if kk != "evaluations":
                    a[kk] = vv


# ---------------------------------------------------------------------------
# known findings

def load_known():
    path = os.path.join(VERIF, "known_findings.json")
    if not os.path.exists(path):
        return []
    with open(path) as fh:
        return json.load(fh).get("findings", [])


def open_signatures(prop_id):
    return {f["signature"]: f for f in load_known()
            if f["property"] == prop_id and f.get("status") == "open"}


# ---------------------------------------------------------------------------
# workers

_PROP = None
_KNOWN = None


def _alarm(signum, frame):
    # re-arm first: an exception raised while a __del__ happens to be running is swallowed by
    # the interpreter, and the spinning code would then never be interrupted again
    signal.alarm(2)
    raise WallClockHang("one case took more than %d s of real time" % CASE_WALL_LIMIT)


def _arm_deadline(tier):
    """Last line of defence against a runaway process (e.g. code under test spinning inside an exception handler
    that swallows the per-execution watchdog): after VERIF_WALL_LIMIT seconds (default 1 h quick, 8 h thorough) the
    process ends itself with the harness-error exit code - inconclusive, never a violation."""
    import threading
    limit = float(os.environ.get("VERIF_WALL_LIMIT", 3600 if tier == "quick" else 8 * 3600))

    def bomb():
        time.sleep(limit)
        try:
            os.write(2, b"HARNESS: wall-clock limit reached, giving up (inconclusive)\n")
        finally:
            os._exit(2)
    t = threading.Thread(target=bomb, name="verif-deadline", daemon=True)
    t.start()


def guarded_run(prop, case):
    """run_case with a real-time watchdog: one simulated execution normally takes milliseconds;
    two minutes without finishing one means the code under test spins without ever touching
    the simulated transport (the watchdog is re-armed at the start of every execution)."""
    signal.signal(signal.SIGALRM, _alarm)
    signal.alarm(CASE_WALL_LIMIT)
    from . import simnet
    # the limit applies to ONE simulated execution: cases of the fault enumerations run thousands
    simnet.ON_RUN = lambda: signal.alarm(CASE_WALL_LIMIT)
    simnet.ON_BLOCKED = lambda: signal.alarm(20)
    spec = case.get("prelude") if isinstance(case, dict) else None
    debug_log = None
    try:
        if spec:
            # an earlier connection in the same process precedes every simulated execution of this case
            from . import build
            simnet.CASE_PRELUDE = build.prelude(spec)
        if isinstance(case, dict) and case.get("copts_noise"):
            # connect() options that should make no difference to this property (the scenario's own ones win)
            simnet.CASE_COPTS = dict(case["copts_noise"])
        if isinstance(case, dict) and case.get("connect_positional"):
            # the application passes its connect() options positionally, in the documented order
            simnet.CASE_POSITIONAL = True
        if isinstance(case, dict) and case.get("wsopts_noise"):
            # WebSocket() constructor arguments that should make no difference to this property
            simnet.CASE_WSOPTS = dict(case["wsopts_noise"])
        if isinstance(case, dict) and case.get("noise_calls"):
            simnet.CASE_NOISE = list(case["noise_calls"])
        del simnet.NOISE_PROBLEMS[:]
        if isinstance(case, dict) and case.get("debug_log"):
            # the application has switched on DEBUG logging for the library (documented way to see what it does)
            lg = logging.getLogger("lomond")
            debug_log = (lg, lg.level)
            lg.addHandler(_SINK)
            lg.setLevel(logging.DEBUG)
        cspec = case.get("companion") if isinstance(case, dict) else None
        if cspec:
            # a second live connection in the same process accompanies every simulated execution of this case
            simnet.CASE_COMPANION = cspec
        res = prop.run_case(case)
        if spec and isinstance(res.labels, set):
            res.labels.add("after_earlier_connection:" + ("same_object" if spec.get("same") else "other_object"))
        if isinstance(case, dict) and case.get("noise_calls") and isinstance(res.labels, set):
            res.labels.add("application_tried_unsendable_calls")
        if cspec and isinstance(res.labels, set):
            res.labels.add("with_second_live_connection:" + cspec.get("mode", "interleaved"))
        if debug_log and isinstance(res.labels, set):
            res.labels.add("debug_logging_enabled")
        if simnet.BUG_LOG:
            # an error inside the simulation, whatever the client under test made of it
            raise boot.HarnessError("simulation error: %s (case %s)" % (simnet.BUG_LOG[0], canon(case)[:400]))
        return res
    except simnet.HarnessBug as bug:
        raise boot.HarnessError("simulation error: %s" % bug)
    except WallClockHang as hang:
        return failed("no_progress", str(hang))
    finally:
        simnet.CASE_PRELUDE = None
        simnet.CASE_COMPANION = None
        simnet.CASE_COPTS = None
        simnet.CASE_WSOPTS = None
        simnet.CASE_POSITIONAL = False
        simnet.CASE_NOISE = None
        if debug_log:
            debug_log[0].removeHandler(_SINK)
            debug_log[0].setLevel(debug_log[1])
        signal.alarm(0)


def _enum_worker(args):
    prop_id, tier, enum_index, shard, nshards = args
    prop = _PROP
    known = _KNOWN
    acc = Acc()
    try:
        enum = prop.enumerations(tier)[enum_index]
        n = 0
        for i, case in enumerate(enum.make()):
            if i % nshards != shard:
                continue
            res = guarded_run(prop, case)
            n += 1
            if not acc.note(case, res, known):
                acc.failure = (res.signature, res.detail, case)
                break
        acc.stages["enum:" + enum.name] = {"evaluations": n}
    except boot.HarnessError:
        raise
    except Exception:
        return ("error", traceback.format_exc())
    return ("ok", acc)


class _Unknown(Exception):
    pass


class _StopShrinking(BaseException):
    pass


def _hyp_worker(args):
    prop_id, tier, seed, shard, n_examples = args
    prop = _PROP
    known = _KNOWN
    acc = Acc()
    try:
        import hypothesis
        from hypothesis import given, settings, HealthCheck, Phase
        strat = prop.strategy(tier)
        state = {"best": None, "t_fail": None, "failing": False}

        @hypothesis.seed(seed * 1000 + shard)
        @settings(max_examples=n_examples, database=None, deadline=None,
                  derandomize=False, report_multiple_bugs=False,
                  suppress_health_check=[HealthCheck.too_slow, HealthCheck.data_too_large,
                                         HealthCheck.large_base_example],
                  phases=[Phase.generate, Phase.shrink])
        @given(strat)
        def test(case):
            res = guarded_run(prop, case)
            if state["failing"]:
                # shrinking: do not count, only look for smaller failures
                if (not res.ok) and res.signature not in known:
                    size = len(canon(case))
                    if state["best"] is None or size <= state["best"][0]:
                        state["best"] = (size, res.signature, res.detail, case)
                    if time.time() - state["t_fail"] > prop.shrink_budget_s:
                        raise _StopShrinking()
                    raise _Unknown(res.signature)
                return
            if not acc.note(case, res, known):
                state["failing"] = True
                state["t_fail"] = time.time()
                state["best"] = (len(canon(case)), res.signature, res.detail, case)
                raise _Unknown(res.signature)

        try:
            test()
        except _Unknown:
            pass
        except _StopShrinking:
            pass
        except hypothesis.errors.FailedHealthCheck:
            return ("error", traceback.format_exc())
        except hypothesis.errors.Flaky:
            if state["best"] is None:
                return ("error", traceback.format_exc())
        if state["best"] is not None:
            _, sig, detail, case = state["best"]
            acc.failure = (sig, detail, case)
        acc.stages["hypothesis"] = {"evaluations": acc.evaluations}
    except boot.HarnessError:
        raise
    except Exception:
        return ("error", traceback.format_exc())
    return ("ok", acc)


# ---------------------------------------------------------------------------

def write_failure(prop_id, sig, detail, case):
    os.makedirs(OUT_DIR, exist_ok=True)
    h = case_hash(case).hex()
    path = os.path.join(OUT_DIR, "%s-%s.json" % (prop_id, h))
    with open(path, "w") as fh:
        json.dump({"property": prop_id, "signature": sig, "detail": detail, "case": case},
                  fh, indent=1, default=_default)
    return path


def write_evidence(prop, tier, seed, acc, wall, violations, extra_cov=None, inconclusive=None):
    cov = {
        "evaluations": acc.evaluations,
        "distinct_nontrivial": len(acc.nontrivial),
        "rule": prop.rule + ((" " + rules_more.MORE[prop.id]) if prop.id in rules_more.MORE else ""),
        "samples": acc.samples[:8] or [],
        "labels": dict(sorted(acc.labels.items())),
        "stages": acc.stages,
        "excluded_known": acc.excluded,
        "excluded_known_samples": acc.excluded_samples,
    }
    if any(v.get("exhaustive") for v in acc.stages.values()):
        cov["exhaustive"] = all(v.get("exhaustive", False) for k, v in acc.stages.items()
                                if k.startswith("enum:")) and "hypothesis" not in acc.stages
        cov["exhaustive_stages"] = sorted(k for k, v in acc.stages.items() if v.get("exhaustive"))
    if extra_cov:
        cov.update(extra_cov)
    if inconclusive:
        cov["inconclusive"] = inconclusive
    ev = {
        "property_id": prop.id,
        "tier": tier,
        "seed": seed,
        "level": prop.level,
        "coverage": cov,
        "assumptions": list(prop.assumptions),
        "wall_s": round(wall, 3),
        "violations": violations,
    }
    if os.environ.get("VERIF_NO_EVIDENCE"):
        return   # sensitivity runs against mutated scratch copies must not touch evidence/
    os.makedirs(os.path.join(VERIF, "evidence"), exist_ok=True)
    path = os.path.join(VERIF, "evidence", prop.id + ".json")
    tmp = path + ".tmp"
    with open(tmp, "w") as fh:
        json.dump(ev, fh, indent=1, default=_default, sort_keys=True)
        fh.write("\n")
    os.replace(tmp, path)


def replay_files(prop_id):
    d = os.path.join(VERIF, "replays", prop_id)
    if not os.path.isdir(d):
        return []
    return [os.path.join(d, f) for f in sorted(os.listdir(d)) if f.endswith(".json")]


def run_replay(prop, path, known):
    with open(path) as fh:
        doc = json.load(fh)
    case = doc["case"] if isinstance(doc, dict) and "case" in doc else doc
    res = guarded_run(prop, case)
    return case, res


def main(prop, tier, seed, replay=None):
    global _PROP, _KNOWN
    t0 = time.time()
    known = open_signatures(prop.id)
    _PROP, _KNOWN = prop, set(known)
    try:
        from . import wire, httpref, utf8ref, deflateref, refmodel
        wire.selftest()
        httpref.selftest()
        utf8ref.selftest()
        deflateref.selftest()
        refmodel.selftest()
        prop.selftest()
    except Exception:
        sys.stderr.write("HARNESS ERROR: self-test failed\n" + traceback.format_exc())
        return 2

    if replay:
        case, res = run_replay(prop, replay, known)
        if res.ok:
            print("replay %s: property held (labels=%s)" % (replay, list(res.labels)))
            return 0
        if res.signature in known:
            print("KNOWN-FINDING: property=%s %s" % (prop.id, known[res.signature]["what"]))
            return 0
        print("replay %s: %s: %s" % (replay, res.signature, res.detail))
        print("VIOLATION property=%s replay=%s" % (prop.id, replay))
        return 1

    acc = Acc()
    failure = None
    failure_path = None
    _arm_deadline(tier)      # threads do not survive fork: pool workers arm their own (Pool initializer)

    # 1. saved replays (seconds-long regression tier)
    n_rep = 0
    for path in replay_files(prop.id):
        case, res = run_replay(prop, path, known)
        n_rep += 1
        if not acc.note(case, res, known):
            failure = (res.signature, res.detail, case)
            failure_path = path
            break
    acc.stages["replays"] = {"evaluations": n_rep}

    errors = []
    if failure is None:
        ctx = multiprocessing.get_context("fork")
        tasks = []
        enums = prop.enumerations(tier)
        for ei, enum in enumerate(enums):
            if tier not in enum.tiers:
                continue
            for shard in range(NPROC):
                tasks.append(("enum", (prop.id, tier, ei, shard, NPROC)))
        n_ex = prop.examples.get(tier, 0)
        if n_ex and prop.strategy(tier) is not None:
            per = max(1, n_ex // NPROC)
            for shard in range(NPROC):
                tasks.append(("hyp", (prop.id, tier, seed, shard, per)))
        if tasks:
            with ctx.Pool(min(NPROC, len(tasks)), initializer=_arm_deadline, initargs=(tier,)) as pool:
                asyncs = []
                for kind, args in tasks:
                    fn = _enum_worker if kind == "enum" else _hyp_worker
                    asyncs.append(pool.apply_async(fn, (args,)))
                for a in asyncs:
                    status, payload = a.get()
                    if status == "error":
                        errors.append(payload)
                    else:
                        acc.merge(payload)
        for ei, enum in enumerate(enums):
            key = "enum:" + enum.name
            if key in acc.stages:
                acc.stages[key]["exhaustive"] = bool(enum.exhaustive)
        failure = acc.failure

    extra_cov = None
    if failure is None and not errors:
        try:
            extra_cov = prop.extra(tier, seed, acc)
            failure = acc.failure
        except boot.HarnessError as error:
            errors.append(str(error))
        except Exception:
            errors.append(traceback.format_exc())

    if errors:
        sys.stderr.write("HARNESS ERROR in %s:\n%s\n" % (prop.id, errors[0]))
        return 2

    wall = time.time() - t0
    violations = 1 if failure else 0
    write_evidence(prop, tier, seed, acc, wall, violations, extra_cov)

    for sig, entry in sorted(known.items()):
        print("KNOWN-FINDING: property=%s %s [signature=%s, cases excluded this run=%d]" % (
            prop.id, entry["what"], sig, acc.excluded.get(sig, 0)))
    print("%s %s seed=%d: %d evaluations, %d distinct non-trivial, %.1fs" % (
        prop.id, tier, seed, acc.evaluations, len(acc.nontrivial), wall))
    if failure:
        sig, detail, case = failure
        path = failure_path or write_failure(prop.id, sig, detail, case)
        print("failure signature: %s" % sig)
        print("detail: %s" % (detail if len(str(detail)) < 2000 else str(detail)[:2000] + "..."))
        print("VIOLATION property=%s replay=%s" % (prop.id, path))
        return 1
    return 0
