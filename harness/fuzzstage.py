"""Run the atheris tier of a property (thorough tier): N parallel libFuzzer processes under
python3-vt, each with its own -seed and corpus directory; half start from the seed corpus,
half from an empty corpus.  Returns coverage info; records a failure in ``acc``."""
import json
import os
import shutil
import subprocess

from . import boot, runner

PY_VT = shutil.which("python3-vt") or "/opt/veriftools/pyvenv/bin/python"


def run(target, acc, seed, workers=16, runs=40000, timeout=1500):
    if not os.path.exists(PY_VT):
        return {"atheris": "not available: python3-vt missing"}
    base = os.path.join(runner.OUT_DIR, "fuzz-%s-%d" % (target, seed))
    shutil.rmtree(base, ignore_errors=True)
    os.makedirs(base, exist_ok=True)
    env = dict(os.environ, VERIF_REPO=boot.REPO, PYTHONHASHSEED="0")
    procs = []
    for i in range(workers):
        out = os.path.join(base, "w%02d" % i)
        cmd = [PY_VT, os.path.join(boot.VERIF, "harness", "fuzz.py"), target, "--runs", str(runs),
               "--seed", str(seed * 100 + i + 1), "--out", out]
        if i % 2:
            cmd.append("--empty-corpus")
        procs.append((out, subprocess.Popen(cmd, stdout=subprocess.DEVNULL, stderr=subprocess.PIPE, env=env)))
    total = 0
    nontrivial = 0
    labels = {}
    failure = None
    errors = []
    for out, p in procs:
        try:
            _, err = p.communicate(timeout=timeout)
        except subprocess.TimeoutExpired:
            p.kill()
            err = b"timeout"
        fpath = os.path.join(out, "failure.json")
        spath = os.path.join(out, "stats.json")
        if os.path.exists(spath):
            st = json.load(open(spath))
            total += st["execs"]
            nontrivial += st["distinct_nontrivial"]
            for k, v in st["labels"].items():
                labels["fuzz:" + k] = labels.get("fuzz:" + k, 0) + v
        if os.path.exists(fpath) and failure is None:
            failure = json.load(open(fpath))
        elif p.returncode not in (0, None) and not os.path.exists(fpath):
            errors.append((err or b"")[-400:].decode("utf-8", "replace"))
    if errors and failure is None and total == 0:
        raise boot.HarnessError("atheris stage failed: " + errors[0])
    acc.evaluations += total
    for k, v in labels.items():
        acc.labels[k] = acc.labels.get(k, 0) + v
    acc.stages["atheris:" + target] = {"evaluations": total, "workers": workers, "runs_per_worker": runs,
                                        "distinct_nontrivial_sum_over_workers": nontrivial}
    if failure is not None:
        acc.failure = (failure["signature"], failure["detail"], failure["case"])
    else:
        shutil.rmtree(base, ignore_errors=True)
    return {"atheris_execs": total}
