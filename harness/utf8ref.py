"""RFC 3629 section 4 ABNF as an explicit 8-state recogniser (independent of
lomond's Hoehrmann table and of CPython's decoder; the self-test makes the two
independent references agree with each other on a boundary table)."""

START, T1, T2, T3, E0, ED, F0, F4 = range(8)
REJECT = -1
STATE_NAMES = ["start", "tail1", "tail2", "tail3", "afterE0", "afterED", "afterF0", "afterF4"]


def step(state, b):
    """One transition; returns the new state or REJECT."""
    if state == START:
        if b <= 0x7F:
            return START
        if 0xC2 <= b <= 0xDF:
            return T1
        if b == 0xE0:
            return E0
        if 0xE1 <= b <= 0xEC or b in (0xEE, 0xEF):
            return T2
        if b == 0xED:
            return ED
        if b == 0xF0:
            return F0
        if 0xF1 <= b <= 0xF3:
            return T3
        if b == 0xF4:
            return F4
        return REJECT
    if state == T1:
        return START if 0x80 <= b <= 0xBF else REJECT
    if state == T2:
        return T1 if 0x80 <= b <= 0xBF else REJECT
    if state == T3:
        return T2 if 0x80 <= b <= 0xBF else REJECT
    if state == E0:
        return T1 if 0xA0 <= b <= 0xBF else REJECT
    if state == ED:
        return T1 if 0x80 <= b <= 0x9F else REJECT
    if state == F0:
        return T2 if 0x90 <= b <= 0xBF else REJECT
    if state == F4:
        return T2 if 0x80 <= b <= 0x8F else REJECT
    raise ValueError(state)


def run(data, state=START):
    """Return (final state or REJECT, index of the first offending byte or None)."""
    for i, b in enumerate(data):
        state = step(state, b)
        if state == REJECT:
            return REJECT, i
    return state, None


def is_valid(data):
    state, _ = run(data)
    return state == START


def first_offending_index(data):
    """Index of the first byte after which no continuation can make the string
    valid; None when every byte is fine (the string may still be truncated)."""
    _, i = run(data)
    return i


def decode(data):
    """Decode well-formed UTF-8 by hand (no codecs)."""
    out = []
    i = 0
    n = len(data)
    while i < n:
        b = data[i]
        if b <= 0x7F:
            cp, k = b, 1
        elif b <= 0xDF:
            cp, k = b & 0x1F, 2
        elif b <= 0xEF:
            cp, k = b & 0x0F, 3
        else:
            cp, k = b & 0x07, 4
        for j in range(1, k):
            cp = (cp << 6) | (data[i + j] & 0x3F)
        out.append(chr(cp))
        i += k
    return "".join(out)


BOUNDARY = [
    b"", b"\x00", b"\x7f", b"\x80", b"\xbf", b"\xc0\x80", b"\xc0\xaf", b"\xc1\xbf", b"\xc2\x80",
    b"\xdf\xbf", b"\xe0\x80\x80", b"\xe0\x9f\xbf", b"\xe0\xa0\x80", b"\xec\xbf\xbf", b"\xed\x9f\xbf",
    b"\xed\xa0\x80", b"\xed\xbf\xbf", b"\xee\x80\x80", b"\xef\xbf\xbf", b"\xf0\x80\x80\x80",
    b"\xf0\x8f\xbf\xbf", b"\xf0\x90\x80\x80", b"\xf3\xbf\xbf\xbf", b"\xf4\x8f\xbf\xbf",
    b"\xf4\x90\x80\x80", b"\xf5\x80\x80\x80", b"\xf8\x88\x80\x80\x80", b"\xfe", b"\xff",
    b"\xc2", b"\xe0\xa0", b"\xe1\x80", b"\xf0\x90", b"\xf0\x90\x80", b"\xf1\x80\x80",
    b"a\xc2\x80b", b"\xce\xba\xe1\xbd\xb9\xcf\x83\xce\xbc\xce\xb5", b"\xe2\x82\xac\xf0\x9f\x98\x80",
    b"\xed\xa0\x80\xed\xb0\x80", b"\xef\xbf\xbe", b"\xc2\x80\x80", b"\xe1\x80\xc0",
]


def selftest():
    for s in BOUNDARY:
        try:
            want = s.decode("utf-8", "strict")
            ok = True
        except UnicodeDecodeError as error:
            ok = False
            want = None
            start = error.start
        assert is_valid(s) == ok, s
        if ok:
            assert decode(s) == want, s
    for cp in list(range(0, 0x300)) + [0x7ff, 0x800, 0xd7ff, 0xe000, 0xffff, 0x10000, 0x10ffff]:
        s = chr(cp).encode("utf-8")
        assert is_valid(s) and decode(s) == chr(cp)
    # every 2-byte string, against CPython
    for a in range(256):
        for b in range(256):
            s = bytes((a, b))
            try:
                s.decode("utf-8")
                ok = True
            except UnicodeDecodeError:
                ok = False
            assert is_valid(s) == ok, s
