"""Hypothesis strategies shared by the properties.  All constructive (no
filter/assume on the hot path); every value is JSON-serialisable."""
from hypothesis import strategies as st

from .build import BOUNDARY_LENS

seeds = st.integers(0, 2 ** 32 - 1)


def payload_len(big=True, cap=200000):
    if not big:
        cap = min(cap, 300)        # "small" really means small (fault enumerations re-run a case thousands of times)
    parts = [
        (6, st.integers(0, 40)),
        (4, st.sampled_from([n for n in BOUNDARY_LENS if n <= cap])),
        (3, st.integers(0, 300)),
        (1, st.integers(0, 2000)),
    ]
    if big:
        parts.append((1, st.integers(60000, min(cap, 70000))))
        parts.append((1, st.integers(0, cap)))
    return weighted(parts)


def weighted(parts):
    """one_of with integer weights (by repetition; keeps shrinking towards the
    first alternative)."""
    alts = []
    for w, s in parts:
        alts.extend([s] * w)
    return st.one_of(alts) if len(alts) > 1 else alts[0]


def binary_spec(big=True, cap=200000):
    small = st.binary(max_size=40).map(lambda b: ["hex", b.hex()])
    sized = st.tuples(st.sampled_from(["rand", "rep"]), payload_len(big, cap), seeds).map(list)
    return st.one_of(small, sized)


_alphabet = st.characters(blacklist_categories=("Cs",))
_boundary_chars = st.sampled_from(
    [chr(c) for c in (0, 0x7f, 0x80, 0x7ff, 0x800, 0xd7ff, 0xe000, 0xfffd, 0xffff,
                      0x10000, 0x10ffff, 0x1f600,
                      # code points that codecs and text tools like to treat specially
                      0xfeff, 0xfffe, 0x2028, 0x2029, 0x85, 0xa0, 0x202e, 0x200b, 0xd, 0xa)])
SPECIAL_CHARS = ["\ufeff", "\ufffe", "\u2028", "\u2029", "\x85", "\xa0", "\u202e", "\u200b", "\x00", "\r", "\n", "\x7f",
                 "\ufffd", "\uffff", "\U0010ffff"]


# texts that look like what some parser of the connection waits for or cuts at
LOOKALIKES = ["\r\n\r\n", "\r\n", "\n\n", "x\r\n\r\ny", "HTTP/1.1 101 Switching Protocols\r\n\r\n", "\r\n\r", "\n\r\n"]


def text_spec(big=True, cap_chars=60000):
    small = st.one_of(st.text(st.one_of(_alphabet, _boundary_chars), max_size=30).map(lambda s: ["str", s]),
                      st.text(st.one_of(_alphabet, _boundary_chars), max_size=30).map(lambda s: ["str", s]),
                      st.text(st.one_of(_alphabet, _boundary_chars), max_size=30).map(lambda s: ["str", s]),
                      st.sampled_from(LOOKALIKES).map(lambda s: ["str", s]))
    lens = [(6, st.integers(0, 60)), (3, st.sampled_from([31, 32, 62, 63, 64, 125, 126, 127])),
            (1, st.integers(0, 1500))]
    if big:
        lens.append((1, st.integers(16000, cap_chars)))
    sized = st.tuples(st.just("text"), weighted(lens), seeds).map(list)
    return st.one_of(small, sized)


def control_payload():
    return st.one_of(
        st.binary(max_size=125).map(lambda b: ["hex", b.hex()]),
        st.tuples(st.just("rand"), st.sampled_from([0, 1, 124, 125]), seeds).map(list),
    )


# 1012 (service restart) and 1013 (try again later) are IANA-registered close codes that lomond accepts;
# 1014 and >= 5000 are left out (status debatable, see DESIGN.md)
CLOSE_CODES = [1000, 1001, 1002, 1003, 1007, 1008, 1009, 1010, 1011, 1012, 1013, 3000, 3999, 4000, 4999]


def close_code():
    return st.one_of(st.sampled_from(CLOSE_CODES), st.integers(3000, 4999))


def close_reason(max_bytes=123):
    """Close reasons incl. the boundary sizes: a Close payload is 2 + len(reason) <= 125 bytes."""
    free = st.text(st.one_of(_alphabet, _boundary_chars), max_size=30).map(lambda s: _clip_utf8(s, max_bytes))
    sized = st.builds(lambda n, ch: _clip_utf8(ch * n, max_bytes),
                      st.sampled_from([0, 1, max_bytes - 3, max_bytes - 2, max_bytes - 1, max_bytes, max_bytes + 40]),
                      st.sampled_from(["r", "\u00e9", "\u20ac", "\U0001f600", "{", "%s{0}"]))
    return weighted([(3, free), (2, sized)])


def _clip_utf8(s, max_bytes):
    while len(s.encode("utf-8")) > max_bytes:
        s = s[:-1]
    return s


def close_msg():
    return st.one_of(
        st.just({"kind": "close", "code": None}),
        st.builds(lambda c, r: {"kind": "close", "code": c, "reason": r}, close_code(), close_reason()),
    )


def control_msg(kinds=("ping", "pong")):
    return st.builds(lambda k, p, f: {"kind": k, "payload": p, "forms": [f]},
                     st.sampled_from(list(kinds)), control_payload(),
                     weighted([(8, st.just(0)), (1, st.just(1)), (1, st.just(2))]))


def form_choices():
    return st.lists(weighted([(8, st.just(0)), (1, st.just(1)), (1, st.just(2))]),
                    min_size=1, max_size=4)


def frag_cuts(max_pos=70000):
    """Cut positions inside the payload; clipped to the payload by the builder, so
    repeated / 0 / end positions produce empty fragments."""
    pos = weighted([(5, st.integers(0, 64)), (2, st.integers(0, 2000)), (1, st.integers(0, max_pos))])
    return weighted([
        (5, st.just([])),
        (6, st.lists(pos, min_size=1, max_size=4)),
        (1, st.lists(pos, min_size=5, max_size=40)),
    ])


def data_msg(big=True, interleave=True, kinds=("text", "binary")):
    def mk(kind, tp, bp, frag, forms, inter):
        m = {"kind": kind, "payload": tp if kind == "text" else bp}
        if frag:
            m["frag"] = frag
            if inter:
                m["inter"] = inter
        m["forms"] = forms
        return m
    inter = st.lists(st.tuples(st.integers(0, 40), control_msg()).map(list), max_size=3) \
        if interleave else st.just([])
    return st.builds(mk, st.sampled_from(list(kinds)), text_spec(big), binary_spec(big),
                     frag_cuts(), form_choices(), inter)


def message(big=True):
    return weighted([(6, data_msg(big)), (3, control_msg())])


def segmentation(max_len=400000):
    cut = weighted([(6, st.integers(1, 400)), (2, st.integers(1, 70000)), (1, st.integers(1, max_len))])
    return weighted([
        (3, st.just("whole")),
        (2, st.just("bytewise")),
        (3, st.tuples(st.just("uniform"), weighted([(4, st.integers(1, 16)), (2, st.integers(17, 3000)),
                                                    (1, st.integers(3000, 70000))])).map(list)),
        (5, st.tuples(st.just("cuts"), st.lists(cut, min_size=1, max_size=12)).map(list)),
    ])


def deflate_opt():
    """The permessage-deflate dimension of a case: not negotiated, negotiated with default parameters, or
    negotiated with drawn window sizes / no_context_takeover flags (harness.deflateref.cfg_of reads it)."""
    cfg = st.fixed_dictionaries({"sb": st.sampled_from([15, 15, 8, 9, 12]), "cb": st.sampled_from([15, 15, 8, 9, 12]),
                                 "snct": st.booleans(), "cnct": st.booleans()})
    return weighted([(3, st.just(False)), (1, st.just(True)), (2, cfg)])


COPTS_VALUES = {"poll": [0.5, 60.0], "ping_rate": [0, 1000.0], "ping_timeout": [None, 1000.0],
                "close_timeout": [None, 0, 1000.0], "auto_pong": [True, False]}


def copts_noise(keys=("poll", "ping_rate", "ping_timeout", "close_timeout", "auto_pong")):
    """connect() options that must make no difference to the property at hand (timers far away, or off): every
    documented option gets varied somewhere, also where it 'obviously' does not matter."""
    opt = st.fixed_dictionaries({}, optional={k: st.sampled_from(COPTS_VALUES[k]) for k in keys})
    return weighted([(2, st.just({})), (1, opt)])


# constructor arguments that only shape the upgrade request: user-agent strings and sub-protocol names as applications
# really write them (accents, other scripts, symbols beyond Latin-1 and beyond the BMP, a very long one), extra headers
WSOPTS_VALUES = {
    "agent": ["Caf\u00e9/1.0", "\u0141\u00f3d\u017a-\u043a\u043b\u0438\u0435\u043d\u0442/2 \u20ac",
              "\u5ba2\u6237\u7aef/3 \U0001f600", "A" * 300, "x"],
    "protocols": [["chat"], ["v1.json", "v2.json", "superchat"], ["\u010dhat", "\u30c7\u30fc\u30bf"], ["p" * 200]],
    "headers": [[[b"X-Trace".hex(), b"abc; def=\"1\"".hex()]],
                [[b"Cookie".hex(), "s\u00e9ssion=\u20ac".encode("utf-8").hex()], [b"X-Empty".hex(), b"".hex()]]],
}


def wsopts_noise():
    """WebSocket() constructor arguments that must make no difference to the property at hand."""
    opt = st.fixed_dictionaries({}, optional={k: st.sampled_from(v) for k, v in WSOPTS_VALUES.items()})
    return weighted([(3, st.just({})), (1, opt)])


def noise_calls():
    """Calls with unsendable arguments (oversize close reason / control payload, wrong types, unencodable JSON) that the
    application makes at drawn events and whose TypeError/ValueError it catches: they must leave no trace."""
    from .simnet import BAD_CALLS
    when = st.one_of(st.tuples(st.just("event"), st.sampled_from(["ready", "poll", "text", "binary", "ping", "closing"]),
                               st.integers(0, 1)).map(list),
                     st.tuples(st.just("msg"), st.integers(0, 5)).map(list), st.tuples(st.just("index"), st.integers(0, 12)).map(list))
    one = st.fixed_dictionaries({"when": when, "do": st.sampled_from(list(BAD_CALLS))})
    return weighted([(3, st.just([])), (1, st.lists(one, min_size=1, max_size=3))])


def companion(weight_none=5):
    """A second live connection in the same process (simnet.Companion): mostly none."""
    spec = st.fixed_dictionaries({"mode": st.sampled_from(["interleaved", "interleaved", "blocked_in_send"])})
    return weighted([(weight_none, st.none()), (1, spec)])


def prelude(weight_none=4):
    """An earlier connection in the same process (see build.prelude): mostly none."""
    from .build import PRELUDE_KINDS
    spec = st.fixed_dictionaries({"kind": st.sampled_from(PRELUDE_KINDS), "same": st.booleans(),
                                  "end": st.sampled_from(["eof", "eof", "reset"]),
                                  # ... inside a "with ws:" block
                                  "with": st.sampled_from([False, False, True])})
    return weighted([(weight_none, st.none()), (1, spec)])


def debug_log():
    """The application has DEBUG logging enabled for the library (runner case key "debug_log"): mostly not."""
    return weighted([(6, st.just(False)), (1, st.just(True))])
