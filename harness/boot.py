"""Process bootstrap: dependency path, repo path, determinism.

Imported first by every entry point.  Makes sure that

* ``import lomond`` resolves to ``$VERIF_REPO`` (default ``/repo``) - the
  *current working tree*, nothing cached or installed elsewhere;
* ``hypothesis`` and ``six`` are importable (they normally are in ``/venv``;
  otherwise ``/verif/.deps`` filled offline from the wheelhouse by ``setup.sh``);
* ``PYTHONHASHSEED`` is pinned (re-exec once if it is not).
"""
import os
import sys

VERIF = os.path.dirname(os.path.dirname(os.path.abspath(__file__)))
REPO = os.path.abspath(os.environ.get("VERIF_REPO", "/repo"))
DEPS = os.path.join(VERIF, ".deps")
WHEELS = "/opt/veriftools/wheels"


class HarnessError(Exception):
    """Something is wrong with the machinery itself (exit code 2)."""


def _ensure_hashseed():
    if os.environ.get("PYTHONHASHSEED") != "0":
        os.environ["PYTHONHASHSEED"] = "0"
        os.execv(sys.executable, [sys.executable] + sys.argv)


def _ensure_paths():
    # repo first so that the working tree wins over any installed copy
    for p in (VERIF, REPO):
        if p in sys.path:
            sys.path.remove(p)
    sys.path.insert(0, VERIF)
    sys.path.insert(0, REPO)
    if os.path.isdir(DEPS) and DEPS not in sys.path:
        sys.path.append(DEPS)


def _ensure_deps():
    missing = []
    for mod in ("six", "hypothesis"):
        try:
            __import__(mod)
        except ImportError:
            missing.append(mod)
    if not missing:
        return
    import subprocess
    os.makedirs(DEPS, exist_ok=True)
    cmd = [sys.executable, "-m", "pip", "install", "--no-index", "--quiet",
           "--find-links", WHEELS, "--target", DEPS] + missing
    subprocess.call(cmd, stdout=subprocess.DEVNULL, stderr=subprocess.DEVNULL)
    if DEPS not in sys.path:
        sys.path.append(DEPS)
    for mod in missing:
        try:
            __import__(mod)
        except ImportError as error:
            raise HarnessError("cannot import %s: %s" % (mod, error))


def init(reexec=True):
    if reexec:
        _ensure_hashseed()
    _ensure_paths()
    _ensure_deps()
    import lomond
    where = os.path.realpath(os.path.dirname(lomond.__file__))
    if not where.startswith(os.path.realpath(REPO) + os.sep):
        raise HarnessError(
            "lomond imported from %s, expected under %s" % (where, REPO))
    import logging
    logging.getLogger("lomond").setLevel(logging.CRITICAL + 1)
    logging.getLogger("lomond").addHandler(logging.NullHandler())
    logging.getLogger("lomond").propagate = False
    return lomond
