"""Additions to the per-property ``rule`` texts (what else is generated / enumerated since the rule was first written);
appended to the rule in the evidence files."""

MORE = {
    "C01": "Also: application sends (text, binary) while the k-th message is being handled; permessage-deflate with drawn / enumerated window sizes and takeover flags (long-distance back-references), "
           "TLS record model, through a proxy, one failing automatic Pong write, the application's close() during delivery, "
           "special code points as text / binary / close reason, an earlier connection, a second live connection, rejected "
           "application calls, option noise, DEBUG logging.",
    "C02": "Also: replies that are no upgrade at all under every single cut and uniform chunk size; payloads that look like the handshake terminator; a third, frame-aligned delivery for conforming sessions.",
    "C03": "Also: close() with a reason of the wrong type (int, bool, list ...; any code, also None); unequal window sizes with payloads repeating beyond the smaller window; every ordered pair of length classes (and around an empty message) under three deflate configurations; "
           "the socket write of the last call interrupted (EINTR / EAGAIN / timeout / error) before or after half of the frame "
           "went out; DEBUG logging; special code points; every class of unpaired surrogate; a scheduled stage with concurrent writers.",
    "C04": "Also: a scheduled stage in which the event loop meets the violation while another thread closes or sends (at most one Close frame); violating frames whose payload looks like a format template (every class x variant enumerated); "
           "DEBUG logging; earlier / second connection; rejected application calls.",
    "C05": "Also: every frame-length class 125..131072 bytes (valid; one invalid byte first / middle / last; a first "
           "fragment of that length ending inside a character); special code points through every carriage; DEBUG logging.",
    "C06": "Also: the header line spelled (name casing, OWS, obs-fold); a peer that ends messages with BFINAL; a scheduled stage "
           "with concurrent compressed senders.",
    "C07": "Also: an ender that keeps the socket readable for ever without completing a frame; histories through a proxy; "
           "handlers slower than the poll interval; the simulated socket has no descriptor after close(); realistic clock epoch.",
    "C08": "Also: the write of the client's Close failing without breaking the transport; over TLS; with permessage-deflate; "
           "the server's Close crossing the application's close(); DEBUG logging.",
    "C09": "Also: three sends after the event iterator has ended (must raise a WebSocketError); close() must have been CALLED on the socket of an established connection whose transport had not failed; permessage-deflate negotiated; a fixed battery (plain/deflate x ws/wss x direct/proxy x closing order); "
           "each selector-wait position also with every later wait failing.",
    "C10": "Also: spellings of the accepted extension (parameters, LWS around ; and =, trailing ;, folds); non-ASCII look-alike values and header names; repeated critical headers; malformed status lines; "
           "header blocks at the 16 KiB limit x cuts in the terminator; URL shapes with credentials and IPv6 literals; DEBUG logging.",
    "C11": "Also: content-overlap scenarios (random bytes vs a payload repeating them); the four-call no-context-takeover scenario in the early-first x second sweep; the event loop inflating compressed server messages while others send; large payloads; a first preemption "
           "inside a locked write x every second preemption; three-preemption chains for three-thread scenarios; a write "
           "lock the library builds itself stays under test (scheduler-aware Lock / RLock / Condition).",
    "C12": "Also: 300-byte and 140 000-150 000-byte frames racing with a Close; in-write x second-preemption sweep; "
           "three-preemption chains (two waiters queued behind a writer).",
    "C13": "Also: every abandonment after every kind of earlier connection (incl. inside a with-block on the same object); a with-block left by an exception with a long multi-byte text; a scheduled stage - gen.close() at a Text event while one or two other threads are inside send_* on the "
           "same connection; TLS unwrap as fallible I/O; proxy; cross-thread finalisation.",
    "C14": "Also: Pings around messages of 64 KiB and more delivered in buffer-filling reads, auto_pong on and off; DEBUG logging; a violating frame behind the conforming stream; scheduled closer-vs-loop scenarios.",
    "C15": "Also: the server starting the closing handshake and never dropping the connection (the echo arms close_timeout); "
           "a Close write that takes virtual time; rejected close() calls; 'dropped for no reason'; realistic clock epoch.",
    "C16": "Also: a server that closes and then keeps the connection open for ever (only the close timeout ends the attempt); rejections with Retry-After / Location / Refresh / Keep-Alive and a Close 1013 'try again later', through "
           "the fake and the real driver; application calls during attempts; long outages.",
    "C17": "Also: chains through a proxy, over TLS, on objects the application configured (custom headers, sub-protocols, "
           "agent), after a corrupt / truncated compressed message with the same parameters negotiated again; held generators.",
    "C18": "Also: a scheduled stage - the event loop runs while another thread sits between the halves of its socket write; permessage-deflate negotiated; Pings with non-text payloads between the fragments of fragmented messages; the k-th automatic Pong failing "
           "to be written; a violating frame behind the burst; multi-byte text; DEBUG logging.",
    "C19": "Also: exactly one Host line and no repeated header in the CONNECT request; proxy-related variables of the real process environment (NO_PROXY ...) with explicit mappings; "
           "percent-encoded credentials; IPv6 targets; malformed status lines; answers at the size limit x cuts in the "
           "terminator; an injected recv fault counts iff it struck before the whole answer had been handed over.",
}

# rounds 17 and 18
MORE2 = {
    "C01": "constructor arguments (agent / protocols / headers beyond Latin-1) drawn.",
    "C03": "two compressing senders in the scheduled stage (inflating in wire order).",
    "C04": "a violating frame after a valid server Close (same verdict under six segmentations, nothing of it delivered); every class with the client's own Close write failing (7 fault kinds).",
    "C05": "text on a connection where permessage-deflate was offered but declined (fail-fast applies).",
    "C06": "the offer written by the application with add_header() in any casing; empty elements in the extension list.",
    "C07": "constructor arguments beyond ASCII / Latin-1 / the BMP (direct, proxy, wss); a real-descriptor stage: the handler closes the session and keeps iterating (PollSelector, SelectSelector).",
    "C08": "constructor arguments drawn.",
    "C09": "persist() over 1100 consecutive transport failures (real client); constructor arguments drawn.",
    "C10": "the earlier-connection dimension now applies to chained runs (it was inert before round 17); residues that look like text lines / a header block.",
    "C11": "a send that takes 12 / 45 / 400 s followed by other writers, direct / proxy / TLS (sendall on a socket with a timeout gives up half-way).",
    "C12": "scenarios that start from a close() issued before Ready.",
    "C13": "every abandonment when the proxy refuses the tunnel; constructor arguments drawn.",
    "C14": "'Close sent' is judged from the wire; close() before the handshake finished; connect() options passed positionally.",
    "C15": "a scheduled stage: the automatic Ping falls due while another thread is inside a send.",
    "C16": "outcomes in which every later write fails for good / times out.",
    "C18": "a real socketpair run per selector: the peer writes its last frames and is gone at once (POLLIN with POLLHUP).",
    "C19": "proxy answers of two or three header blocks (1xx / 204 / 407 first).",
}
for _k, _v in MORE2.items():
    MORE[_k] = MORE.get(_k, "Also:").rstrip() + " Since rounds 17-18: " + _v
