"""Simulated transport, selector, TLS layer and virtual clock.

The real, unmodified lomond client runs on top of this: every name through which
``lomond`` touches the outside world is replaced *from outside the package*:

    lomond.session.socket   -> SockShim        (getaddrinfo, socket(), errors, constants)
    lomond.session.ssl      -> SslShim         (SSLContext().wrap_socket -> SimTLSSocket)
    lomond.session.time     -> Clock proxy     (virtual time)
    lomond.events.time      -> Clock proxy
    lomond.websocket.os     -> OsShim          (urandom -> drawn keys, environ -> scenario env)
    lomond.frame.make_masking_key -> drawn masking keys
    lomond.persist.random   -> drawn uniform values
    WebsocketSession._selector_cls -> SimSelector (subclass of the real SelectorBase;
                                      only wait_readable/close are overridden)

A *scenario* is a JSON-serialisable dict; ``run_scenario`` turns it into a Trace.
Nothing in here calls an RNG or reads the wall clock.
"""
import errno
import os as _real_os
import hashlib
import socket as _real_socket
import ssl as _real_ssl
import weakref
from collections import deque

from . import wire


class HarnessSignal(BaseException):
    """Base for harness-internal control flow (BaseException so that lomond's
    ``except Exception`` cannot swallow it)."""


class HarnessHang(HarnessSignal):
    pass


class HarnessHorizon(HarnessSignal):
    pass


class HarnessBug(HarnessSignal):
    """A programming error inside the simulation.  Raised as a BaseException so that the client under
    test cannot turn it into a Disconnected event: the check then ends with a harness error (exit 2)."""


ORIG_MAKE_MASKING_KEY = None
CASE_PRELUDE = None     # see run_scenario
CASE_COMPANION = None   # see Companion
CASE_NOISE = None       # calls with unsendable arguments that the application makes (and catches) during the case
CASE_WSOPTS = None      # WebSocket() constructor arguments of the case being run that its scenarios do not set themselves
CASE_POSITIONAL = False # the case being run passes its connect() options POSITIONALLY, in the documented order
CASE_COPTS = None       # connect() options of the case being run that its scenarios do not set themselves
ACTIVE_COMPANION = None  # the interleaved companion of the execution in progress
ON_BLOCKED = None        # set by the runner: shortens the real-time watchdog for one execution
NOISE_PROBLEMS = []   # unsendable calls that were accepted or wrote something (reported by the runner)
BUG_LOG = []       # every HarnessBug raised in this process (checked by the runner after each case)

_BUG_TYPES = (TypeError, AttributeError, KeyError, IndexError, NameError, AssertionError, ZeroDivisionError)


def _guard(fn):
    def wrapper(*a, **k):
        try:
            return fn(*a, **k)
        except _BUG_TYPES as error:
            import traceback
            BUG_LOG.append("%s in simnet.%s: %s" % (type(error).__name__, fn.__name__, error))
            raise HarnessBug("%s in simnet.%s: %s\n%s" % (type(error).__name__, fn.__name__, error,
                                                          traceback.format_exc()))
    wrapper.__name__ = fn.__name__
    return wrapper


class InjectedError(RuntimeError):
    """The 'arbitrary exception' fault kind."""


# ---------------------------------------------------------------------------
# current simulation (one per process at a time)

CURRENT = None
ON_RUN = None      # called at the start of every simulated connection (the runner re-arms its watchdog here)


def cur():
    if CURRENT is None:
        raise HarnessHang("lomond touched the transport outside a simulation")
    return CURRENT


# What the client reads as wall-clock time is a realistic epoch value (2**31 s: exactly representable, and so is every
# multiple of 1/8 s added to it), not a small number of seconds: code that mixes absolute and session-relative times
# would get away with it on a clock that starts at zero.  The simulation's own "now" stays relative.
EPOCH = 2.0 ** 31


class _ClockProxy(object):
    def time(self):
        return EPOCH + cur().now

    def sleep(self, dt):
        cur().now += dt


class _SockShim(object):
    error = OSError
    timeout = _real_socket.timeout
    gaierror = _real_socket.gaierror
    herror = _real_socket.herror
    AF_UNSPEC = _real_socket.AF_UNSPEC
    AF_INET = _real_socket.AF_INET
    AF_INET6 = _real_socket.AF_INET6
    SOCK_STREAM = _real_socket.SOCK_STREAM
    IPPROTO_TCP = _real_socket.IPPROTO_TCP
    TCP_NODELAY = _real_socket.TCP_NODELAY
    SHUT_RDWR = _real_socket.SHUT_RDWR
    SHUT_RD = _real_socket.SHUT_RD
    SHUT_WR = _real_socket.SHUT_WR
    SOL_SOCKET = _real_socket.SOL_SOCKET
    SO_KEEPALIVE = _real_socket.SO_KEEPALIVE

    def getaddrinfo(self, host, port, family=0, type=0, proto=0, flags=0):
        return cur().getaddrinfo(host, port)

    def socket(self, af=_real_socket.AF_INET, socktype=_real_socket.SOCK_STREAM, proto=0):
        return cur().new_socket(af)

    def create_connection(self, address, timeout=None, source_address=None):
        host, port = address
        last = None
        for af, st, pr, cn, sa in self.getaddrinfo(host, port):
            try:
                s = self.socket(af, st, pr)
                s.connect(sa)
                return s
            except OSError as error:
                last = error
        raise last or OSError("no addresses")


class _SslContext(object):
    def __init__(self, protocol=None):
        self.protocol = protocol
        self.check_hostname = False
        self.verify_mode = 0

    def wrap_socket(self, sock, server_hostname=None, **kw):
        return cur().wrap_tls(sock, server_hostname)

    def load_default_certs(self, *a, **k):
        pass

    def set_default_verify_paths(self):
        pass


class _SslShim(object):
    SSLError = _real_ssl.SSLError
    SSLContext = _SslContext
    PROTOCOL_TLS = getattr(_real_ssl, "PROTOCOL_TLS", 2)
    PROTOCOL_SSLv23 = getattr(_real_ssl, "PROTOCOL_SSLv23", 2)
    PROTOCOL_TLS_CLIENT = getattr(_real_ssl, "PROTOCOL_TLS_CLIENT", 16)
    HAS_SNI = True
    CERT_NONE = 0

    def wrap_socket(self, sock, **kw):
        return cur().wrap_tls(sock, None)

    def create_default_context(self, *a, **k):
        return _SslContext()

    def __getattr__(self, name):
        # everything else (exception classes, constants) is the real module's
        return getattr(_real_ssl, name)


class _OsShim(object):
    def __init__(self, real_os):
        self._real = real_os

    def urandom(self, n):
        return cur().urandom(n)

    @property
    def environ(self):
        return cur().environ

    def __getattr__(self, name):
        return getattr(self._real, name)


def _make_masking_key():
    return cur().mask_key()


def _random():
    return cur().random()


_installed = False


def install():
    """Substitute the module attributes (idempotent, per process)."""
    global _installed
    if _installed:
        return
    import os
    import lomond.session
    import lomond.events
    import lomond.websocket
    import lomond.frame
    import lomond.persist
    import lomond.selectors

    clock = _ClockProxy()
    lomond.session.socket = _SockShim()
    lomond.session.ssl = _SslShim()
    lomond.session.time = clock
    lomond.events.time = clock
    lomond.websocket.os = _OsShim(os)
    global ORIG_MAKE_MASKING_KEY
    ORIG_MAKE_MASKING_KEY = lomond.frame.make_masking_key     # the library's own (scheduled runs put it back)
    lomond.frame.make_masking_key = _make_masking_key
    lomond.persist.random = _random

    class SimSelector(lomond.selectors.SelectorBase):
        """Only readiness is simulated; the real ``wait()`` stays under test."""

        def __init__(self, sock):
            super(SimSelector, self).__init__(sock)
            # every real selector asks the socket for its descriptor (poll.register / kevent / select): a socket that
            # has already been closed has none
            if sock.fileno() < 0:
                raise ValueError("file descriptor cannot be a negative integer (-1)")
            self._sim = cur()
            self._sim.selector_created(self, sock)

        def wait_readable(self, timeout=0.0):
            return self._sim.wait_readable(self._socket, timeout)

        def close(self):
            self._sim.selector_closed(self)

    lomond.session.WebsocketSession._selector_cls = SimSelector
    _installed = True


# ---------------------------------------------------------------------------
# per-socket state (kept by the sim; the socket object itself is only weakly
# referenced so that finalisation is observable)

class SockState(object):
    def __init__(self, sim, sid, attempt, addr_index, af):
        self.sim = sim
        self.sid = sid
        self.attempt = attempt
        self.addr_index = addr_index
        self.af = af
        self.connected = False
        self.peer = None
        self.closed = False          # close() was called
        self.shutdown_called = False
        self.finalised = False       # object was garbage collected
        self.timeout = None
        self.broken = False          # connection reset / transport failed for good
        self.break_kind = "reset"    # how a broken transport fails: reset | tls_error | tls_eof | io_error
        self.inbox = deque()         # raw arrivals not yet read
        self.eof = False             # peer's FIN has arrived
        self.eof_delivered = 0       # times recv returned b''
        self.reset_pending = False
        self.tls = False
        self.tls_host = None
        self.record = b""            # decrypted remainder of the current TLS record
        self.written = bytearray()
        self.parse_pos = 0           # position in ``written`` of the first unparsed frame
        self.hdr_pos = 0
        self.in_frames = False
        self.requests = []           # HTTP header blocks written (CONNECT, GET)
        self.client_frames = 0
        self.client_close = False
        self.request = None          # last HTTP header block written
        self.step_i = 0
        self.base_t = 0.0
        self.after_end_ops = 0
        self.recv_calls = 0
        self.selector = None

    @property
    def released(self):
        return self.closed or self.finalised

    # -- script ------------------------------------------------------------
    def script(self):
        return self.attempt.get("script", ())

    def pump(self):
        """Move every step that is due into the inbox."""
        steps = self.script()
        now = self.sim.now
        while self.step_i < len(steps):
            step = steps[self.step_i]
            kind = step[0]
            if kind == "wait_close":
                if not self.client_close:
                    return
                self.base_t = max(self.base_t, now)
                self.step_i += 1
                continue
            if kind == "wait_frames":
                if self.client_frames < step[1]:
                    return
                self.base_t = max(self.base_t, now)
                self.step_i += 1
                continue
            if kind == "wait_request":
                if self.request is None:
                    return
                self.base_t = max(self.base_t, now)
                self.step_i += 1
                continue
            if kind == "wait_requests":
                if len(self.requests) < step[1]:
                    return
                self.base_t = max(self.base_t, now)
                self.step_i += 1
                continue
            dt = step[1] if kind != "stream" else step[3]
            due = self.base_t + dt
            if due > now:
                return
            self.base_t = due
            self.step_i += 1
            if kind == "stream":
                data = self.sim.materialise(self, step[1])
                if len(step) > 4 and step[4].get("limit") is not None:
                    data = data[:step[4]["limit"]]       # the stream is cut short here
                for chunk in segment(data, step[2]):
                    self.inbox.append((chunk, due))
                self.sim.arrivals.append((due, self.sid, len(data)))
            elif kind == "eof":
                self.eof = True
            elif kind == "reset":
                # ["reset", dt] or ["reset", dt, kind]: from here on the transport fails for good
                self.reset_pending = True
                if len(step) > 2 and step[2]:
                    self.break_kind = step[2]
            elif kind == "pause":
                pass
            else:
                raise HarnessHang("unknown script step %r" % (kind,))

    def next_due(self):
        steps = self.script()
        if self.step_i >= len(steps):
            return None
        step = steps[self.step_i]
        kind = step[0]
        if kind in ("wait_close", "wait_frames", "wait_request", "wait_requests"):
            ready = {"wait_close": self.client_close,
                     "wait_frames": kind == "wait_frames" and self.client_frames >= step[1],
                     "wait_requests": kind == "wait_requests" and len(self.requests) >= step[1],
                     "wait_request": self.request is not None}[kind]
            return self.sim.now if ready else None
        dt = step[1] if kind != "stream" else step[3]
        return self.base_t + dt

    def raw_readable(self):
        return bool(self.inbox) or self.eof or self.reset_pending or self.broken

    def script_exhausted(self):
        return self.step_i >= len(self.script())

    # -- client writes -----------------------------------------------------
    def note_write(self, data):
        self.written.extend(data)
        buf = self.written
        if not self.in_frames:
            pos = self.hdr_pos
            while True:
                if pos >= len(buf):
                    self.hdr_pos = pos
                    return
                head = bytes(buf[pos:pos + 4])
                if len(head) < 4 and (b"GET "[:len(head)] == head or b"CONN"[:len(head)] == head):
                    self.hdr_pos = pos       # a request written in small pieces: wait for more
                    return
                if head in (b"GET ", b"CONN"):
                    i = buf.find(b"\r\n\r\n", pos)
                    if i < 0:
                        self.hdr_pos = pos
                        return
                    self.request = bytes(buf[pos:i + 4])
                    self.requests.append(self.request)
                    pos = i + 4
                    continue
                break
            self.in_frames = True
            self.parse_pos = pos
        pos = self.parse_pos
        while True:
            f, pos2 = wire.parse_frame(buf, pos)
            if f is None:
                break
            pos = pos2
            self.client_frames += 1
            if f.opcode == wire.CLOSE:
                self.client_close = True
        self.parse_pos = pos


def segment(data, seg):
    """Cut ``data`` into read-sized arrivals.

    seg: None/"whole" | "bytewise" | ["uniform", k] | ["cuts", [positions]]
    Repeated/out-of-range positions are ignored (so that shrinking stays valid).
    """
    n = len(data)
    if n == 0:
        return []
    if seg is None or seg == "whole":
        return [data]
    if seg == "bytewise":
        return [data[i:i + 1] for i in range(n)]
    if seg[0] == "uniform":
        k = max(1, int(seg[1]))
        return [data[i:i + k] for i in range(0, n, k)]
    if seg[0] == "cuts":
        cuts = sorted(set(c for c in seg[1] if 0 < c < n))
        out = []
        last = 0
        for c in cuts:
            out.append(data[last:c])
            last = c
        out.append(data[last:])
        return out
    raise HarnessHang("bad segmentation %r" % (seg,))


class SimSocket(object):
    """Stands in for a TCP socket object."""

    def __init__(self, state):
        self._st = state

    def __del__(self):
        try:
            self._st.finalised = True
        except Exception:
            pass

    # plumbing
    def fileno(self):
        # like a real socket object: -1 once it has been closed
        return -1 if self._st.closed else 1000 + self._st.sid

    def setsockopt(self, *a):
        pass

    def settimeout(self, t):
        self._st.timeout = t
        self._st.sim.log_op("settimeout", self._st, t)

    def gettimeout(self):
        return self._st.timeout

    def setblocking(self, flag):
        self._st.timeout = None if flag else 0.0

    def getpeername(self):
        return self._st.peer

    def connect(self, sa):
        self._st.sim.sock_connect(self._st, sa)

    def sendall(self, data):
        self._st.sim.sock_send(self._st, bytes(memoryview(data)))     # TypeError for str, like a socket

    def send(self, data):
        self._st.sim.sock_send(self._st, bytes(memoryview(data)))
        return len(data)

    def recv_into(self, buf, nbytes=0):
        if not nbytes:
            nbytes = len(buf)
        if nbytes > len(buf):
            if self._st.tls:
                nbytes = len(buf)       # _ssl clamps the request to the buffer
            else:
                raise ValueError("buffer too small for requested bytes")   # as socket.recv_into does
        data = self._st.sim.sock_recv(self._st, nbytes)
        n = len(data)
        buf[:n] = data
        c = ACTIVE_COMPANION
        if c is not None and self._st.sim is not c.sim and n:
            # the thread of the connection under test is preempted right after its read returned (recv
            # releases the GIL): the other connection's thread runs until its next event
            c.step()
        return n

    def recv(self, nbytes):
        return self._st.sim.sock_recv(self._st, nbytes)

    def shutdown(self, how):
        self._st.sim.sock_shutdown(self._st, how)

    def close(self):
        self._st.sim.sock_close(self._st)


class SimTLSSocket(SimSocket):
    """Record-oriented TLS layer over a SimSocket's state."""

    def __init__(self, state, inner):
        SimSocket.__init__(self, state)
        self._inner = inner   # keep the wrapped object alive, as ssl does

    def pending(self):
        return len(self._st.record)

    def unwrap(self):
        # the TLS closing handshake: writes close_notify and waits for the peer's - real I/O that can fail
        self._st.sim.sock_unwrap(self._st)
        return self._inner


# ---------------------------------------------------------------------------

FAULT_KINDS = ("reset", "timeout", "exc", "oserror", "eof")


class Sim(object):
    MAX_WAITS = 20000

    def __init__(self, scenario):
        self.scn = scenario
        self.now = float(scenario.get("t0", 0.0))
        self.environ = dict(scenario.get("env", {}))
        self.attempts = scenario.get("attempts", [])
        self.attempt_i = -1
        self.addr_cursor = 0
        self.socks = []           # SockState (strong)
        self.sock_refs = []       # weakrefs to socket objects
        self.log = []             # wire log: (op, sid, data, t, actor, ev_index)
        self.arrivals = []        # (time, sid, nbytes) of every stream step made available
        self.actor = "lib"
        self.ev_index = -1
        self.keys = [bytes.fromhex(k) for k in scenario.get("keys", [])]
        self.key_i = 0
        self.keys_issued = []
        self.masks = [bytes.fromhex(k) for k in scenario.get("masks", [])]
        self.mask_i = 0
        self.randoms = list(scenario.get("randoms", []))
        self.random_i = 0
        self.randoms_issued = []
        self.op_counts = {}
        self.waits = 0
        self.idle_waits = 0
        self.selectors = []       # [selector_id, sid, closed]
        self.horizon = scenario.get("horizon")
        self.reply_builder = None
        self.getaddrinfo_calls = []
        self.wait_log = []        # (t_before, timeout, result, t_after)
        # what ANOTHER application thread does while the thread running the event loop is blocked inside a
        # system call: scenario["io_reactions"] = [{"at": [op, n], "do": [actions]}], op in getaddrinfo /
        # connect / wrap / send / recv / wait, n = ordinal of that call within the attempt
        self.io_reactions = list(scenario.get("io_reactions", []))
        self.io_counts = {}
        self.io_actions = []      # records like Trace.actions
        self.ws = None
        self._in_io_reaction = False

    # -- deterministic "randomness" ---------------------------------------
    def _derived(self, tag, i, n):
        out = b""
        c = 0
        while len(out) < n:
            out += hashlib.sha256(("%s:%d:%d" % (tag, i, c)).encode()).digest()
            c += 1
        return out[:n]

    def urandom(self, n):
        if n == 16:
            if self.key_i < len(self.keys):
                k = self.keys[self.key_i]
            else:
                k = self._derived("key", self.key_i, 16)
            self.key_i += 1
            self.keys_issued.append(k)
            return k
        if n == 4:
            return self.mask_key()
        return self._derived("urandom", n, n)

    def mask_key(self):
        if self.mask_i < len(self.masks):
            k = self.masks[self.mask_i]
        else:
            k = self._derived("mask", self.mask_i, 4)
        self.mask_i += 1
        return k

    def random(self):
        if self.random_i < len(self.randoms):
            r = self.randoms[self.random_i]
        else:
            r = (int.from_bytes(self._derived("rnd", self.random_i, 4), "big") % 1024) / 1024.0
        self.random_i += 1
        self.randoms_issued.append(r)
        return r

    def io_point(self, op):
        """The loop thread enters the system call ``op``: other application threads may run now."""
        n = self.io_counts.get(op, 0)
        self.io_counts[op] = n + 1
        if not self.io_reactions or self._in_io_reaction or self.ws is None:
            return
        for rule in self.io_reactions:
            if rule["at"][0] != op or rule["at"][1] != n:
                continue
            self._in_io_reaction = True
            actor, self.actor = self.actor, "app"
            try:
                for action in rule["do"]:
                    rec = {"at": [op, n], "action": action, "log_before": len(self.log)}
                    try:
                        do_action(self.ws, action, self)
                        rec["result"] = "ok"
                    except HarnessSignal:
                        raise
                    except Exception as error:
                        rec["result"] = type(error).__name__
                        rec["mro"] = [c.__name__ for c in type(error).__mro__]
                        rec["msg"] = str(error)
                    rec["log_after"] = len(self.log)
                    self.io_actions.append(rec)
            finally:
                self.actor = actor
                self._in_io_reaction = False

    # -- faults -------------------------------------------------------------
    def fault(self, kind):
        n = self.op_counts.get(kind, 0)
        self.op_counts[kind] = n + 1
        att = self.attempt()
        if att is None:
            return None
        table = att.get("faults")
        if not table:
            return None
        # "<op>_from": [k, how] - from the k-th call on EVERY call of that kind fails (a descriptor gone bad)
        frm = table.get(kind + "_from")
        if frm and n >= frm[0]:
            return frm[1]
        per = table.get(kind)
        if not per:
            return None
        return per.get(str(n))

    def raise_fault(self, f, st=None):
        if f == "reset":
            if st is not None:
                st.broken = True
            raise ConnectionResetError(errno.ECONNRESET, "Connection reset by peer {fd 7} %s {0}")
        if f == "pipe":
            if st is not None:
                st.broken = True
            raise BrokenPipeError(errno.EPIPE, "Broken pipe {} %d")
        if f == "timeout":
            raise _real_socket.timeout("timed out {0!r}")
        if f == "oserror":
            raise OSError(errno.EIO, "injected I/O error {x} %(y)s }{")
        if f in ("eintr", "partial_eintr"):
            raise InterruptedError(errno.EINTR, "Interrupted system call {0}")
        if f in ("eagain", "partial_eagain"):
            raise BlockingIOError(errno.EAGAIN, "Resource temporarily unavailable %s")
        if f == "sslerror":
            raise _real_ssl.SSLError("injected TLS error {0} %s")
        if f == "exc":
            raise InjectedError("injected arbitrary exception {} {0} %s {x!r}")
        raise HarnessHang("unknown fault kind %r" % (f,))

    def raise_broken(self, st, sending=False):
        """The error a transport that has failed for good keeps reporting (every later read fails
        the same way; the TLS kinds only exist on a TLS-wrapped socket)."""
        kind = st.break_kind if (st.tls or not st.break_kind.startswith("tls_")) else "reset"
        if kind == "tls_error":
            raise _real_ssl.SSLError(_real_ssl.SSL_ERROR_SSL, "[SSL: DECRYPTION_FAILED_OR_BAD_RECORD_MAC] "
                                     "decryption failed or bad record mac")
        if kind == "tls_eof":
            raise _real_ssl.SSLEOFError(_real_ssl.SSL_ERROR_EOF, "EOF occurred in violation of protocol")
        if kind == "io_error":
            raise OSError(errno.EHOSTUNREACH, "No route to host {host} %s")
        if sending:
            raise BrokenPipeError(errno.EPIPE, "Broken pipe {} %d")
        raise ConnectionResetError(errno.ECONNRESET, "Connection reset by peer {fd 7} %s {0}")

    # -- attempts / sockets ---------------------------------------------------
    def attempt(self):
        if 0 <= self.attempt_i < len(self.attempts):
            return self.attempts[self.attempt_i]
        return None

    def log_op(self, op, st, data=None):
        self.log.append((op, st.sid if st is not None else -1, data, self.now,
                         self.actor, self.ev_index))

    @_guard
    def getaddrinfo(self, host, port):
        self.attempt_i += 1
        self.addr_cursor = 0
        self.op_counts = {}
        self.io_counts = {}
        self.waits = 0
        self.io_point("getaddrinfo")
        self.getaddrinfo_calls.append((host, port))
        self.log.append(("getaddrinfo", -1, (host, port), self.now, self.actor, self.ev_index))
        att = self.attempt()
        if att is None:
            raise _real_socket.gaierror(-2, "Name or service not known (no more scripted attempts)")
        res = att.get("resolve", "ok")
        if res == "gaierror":
            raise _real_socket.gaierror(-2, "Name or service not known")
        if res == "exc":
            raise InjectedError("injected resolver exception")
        out = []
        for i, a in enumerate(att.get("addrs", [{"connect": "ok"}])):
            if a.get("family") == "inet6":
                out.append((_real_socket.AF_INET6, _real_socket.SOCK_STREAM, 6, "",
                            ("2001:db8::%d" % (i + 1), port, 0, 0)))
            else:
                out.append((_real_socket.AF_INET, _real_socket.SOCK_STREAM, 6, "",
                            ("192.0.2.%d" % (i + 1), port)))
        return out

    @_guard
    def new_socket(self, af):
        att = self.attempt()
        if att is None:
            raise HarnessHang("socket() without getaddrinfo()")
        addrs = att.get("addrs", [{"connect": "ok"}])
        i = self.addr_cursor
        self.addr_cursor += 1
        spec = addrs[i] if i < len(addrs) else {"connect": "refused"}
        if spec.get("connect") == "sockerr":
            self.log.append(("socket_fail", -1, i, self.now, self.actor, self.ev_index))
            raise OSError(errno.EAFNOSUPPORT, "Address family not supported")
        st = SockState(self, len(self.socks), att, i, af)
        st.spec = spec
        self.socks.append(st)
        sock = SimSocket(st)
        self.sock_refs.append(weakref.ref(sock))
        self.log_op("socket", st, i)
        return sock

    @_guard
    def wrap_tls(self, sock, hostname):
        st = sock._st
        self.io_point("wrap")
        f = self.fault("wrap")
        self.log_op("tls_wrap", st, hostname)
        if f:
            self.raise_fault("sslerror" if f in ("reset", "oserror") else f, st)
        st.tls = True
        st.tls_host = hostname
        t = SimTLSSocket(st, sock)
        self.sock_refs.append(weakref.ref(t))
        if st.connected:
            # like ssl: wrapping a CONNECTED socket performs the handshake at once, and a socket
            # whose handshake fails there is closed before the error is raised
            try:
                self.tls_handshake(st)
            except Exception:
                st.closed = True
                self.log_op("close", st, "by ssl after a failed handshake")
                raise
        return t

    def tls_handshake(self, st):
        """The TLS handshake of one address ({"tls": outcome} in its spec): it runs inside connect() of a
        socket that was wrapped before connecting, or inside wrap_socket() of a connected one."""
        how = st.spec.get("tls", "ok")
        self.log_op("tls_handshake", st, how)
        if how == "ok":
            return
        st.broken = True
        if how == "reset":
            raise ConnectionResetError(errno.ECONNRESET, "Connection reset by peer {fd 7} %s {0}")
        if how == "eof":
            st.break_kind = "tls_eof"
            raise _real_ssl.SSLEOFError(_real_ssl.SSL_ERROR_EOF, "EOF occurred in violation of protocol")
        if how == "cert":
            st.break_kind = "tls_error"
            raise _real_ssl.SSLError(_real_ssl.SSL_ERROR_SSL, "[SSL: CERTIFICATE_VERIFY_FAILED] certificate verify failed")
        if how == "timeout":
            self.now += st.timeout or 0.0
            raise _real_socket.timeout("_ssl.c: The handshake operation timed out")
        raise HarnessHang("bad tls outcome %r" % (how,))

    @_guard
    def sock_connect(self, st, sa):
        self.log_op("connect", st, sa)
        self.io_point("connect")
        how = st.spec.get("connect", "ok")
        if how == "ok":
            st.connected = True
            st.peer = sa
            st.base_t = self.now
            if st.tls:
                self.tls_handshake(st)
            return
        if how == "refused":
            raise ConnectionRefusedError(errno.ECONNREFUSED, "Connection refused {0}")
        if how == "timeout":
            self.now += st.timeout or 0.0
            raise _real_socket.timeout("timed out {0!r}")
        if how == "unreach":
            raise OSError(errno.ENETUNREACH, "Network is unreachable {net} %s")
        if how == "exc":
            raise InjectedError("injected connect exception")
        raise HarnessHang("bad connect outcome %r" % (how,))

    def _ended(self, st):
        st.after_end_ops += 1
        if st.after_end_ops > 40:
            raise HarnessHang("client keeps using the transport after it ended")

    @_guard
    def sock_send(self, st, data):
        data = bytes(data)
        f = self.fault("send")
        if not f and data[:1] == b"\x88" and not getattr(st, "close_write_faulted", False):
            # fault table key "send_close": the write that carries the client's Close frame fails (once)
            table = (self.attempt() or {}).get("faults") or {}
            if table.get("send_close"):
                st.close_write_faulted = True
                f = table["send_close"]
        if st.closed:
            self.log_op("send_on_closed", st, data)
            raise OSError(errno.EBADF, "Bad file descriptor")
        if st.broken:
            self.log_op("send_fail", st, data)
            self.raise_broken(st, sending=True)
        if f and f.startswith("slow:"):
            # the write takes (virtual) time - a full send buffer, a slow link - and then succeeds ... on a BLOCKING
            # socket.  On a socket that carries a timeout shorter than that, sendall() gives up after the timeout with
            # part of the data out (as a real socket does)
            secs = float(f[5:])
            if st.timeout is not None and secs > st.timeout:
                half = data[:max(1, len(data) // 2)]
                self.now += st.timeout
                self.log_op("send", st, half)
                st.note_write(half)
                self.log_op("send_fail", st, data[len(half):])
                raise _real_socket.timeout("timed out")
            self.now += secs
            f = None
        if f and f.startswith("partial_"):
            # sendall() got part of the data out before it failed (it cannot say how much): those bytes ARE on the wire
            half = data[:max(1, len(data) // 2)]
            self.log_op("send", st, half)
            st.note_write(half)
            self.log_op("send_fail", st, data[len(half):])
            self.raise_fault(f, st)
        if f:
            self.log_op("send_fail", st, data)
            self.raise_fault(f, st)
        hook = self.scn.get("_send_hook")
        if hook is not None:
            hook(self, st, data)
            return
        self.log_op("send", st, data)
        st.note_write(data)

    @_guard
    def sock_recv(self, st, count):
        st.recv_calls += 1
        self.io_point("recv")
        f = self.fault("recv")
        if st.closed:
            raise OSError(errno.EBADF, "Bad file descriptor")
        if f == "eof":
            st.eof = True
            st.inbox.clear()
            st.record = b""
        elif f:
            self.log_op("recv_fail", st, f)
            self.raise_fault(f, st)
        if st.broken:
            self._ended(st)
            self.log_op("recv_fail", st, st.break_kind)
            self.raise_broken(st)
        if st.tls and st.record:
            return self._serve_record(st, count)
        st.pump()
        if not st.inbox and not st.eof and not st.reset_pending:
            # a blocking read with nothing there: block until something arrives
            nd = st.next_due()
            tmo = st.timeout
            if nd is not None and (tmo is None or nd <= self.now + tmo):
                self.now = max(self.now, nd)
                st.pump()
                if not st.raw_readable():
                    # trigger step that produced nothing readable; try again
                    return self.sock_recv_blocked(st, count)
            elif tmo is not None:
                self.now += tmo
                self.log_op("recv_fail", st, "timeout")
                raise _real_socket.timeout("timed out {0!r}")
            else:
                raise HarnessHang("blocking recv() with nothing ever to come")
        if st.inbox:
            if st.tls and st.attempt.get("tls_eager"):
                # a TLS layer that decrypts everything that has arrived at once and reports all
                # of it through pending() (read-ahead); OpenSSL's default is the record-at-a-time
                # behaviour below
                parts = []
                due = 0.0
                while st.inbox:
                    chunk, due = st.inbox.popleft()
                    parts.append(chunk)
                st.record = b"".join(parts)
                st.record_due = due
                return self._serve_record(st, count)
            if st.tls:
                chunk, due = st.inbox.popleft()
                rec = st.attempt.get("record", 16384)
                if len(chunk) > rec:
                    st.inbox.appendleft((chunk[rec:], due))
                    chunk = chunk[:rec]
                st.record = chunk
                st.record_due = due
                return self._serve_record(st, count)
            chunk, due = st.inbox.popleft()
            if len(chunk) > count:
                st.inbox.appendleft((chunk[count:], due))
                chunk = chunk[:count]
            self.log.append(("recv", st.sid, chunk, self.now, self.actor, self.ev_index, due))
            return chunk
        if st.reset_pending:
            st.reset_pending = False
            st.broken = True
            self.log_op("recv_fail", st, st.break_kind)
            self.raise_broken(st)
        # EOF
        st.eof_delivered += 1
        self._ended(st)
        self.log_op("recv_eof", st, None)
        return b""

    def sock_recv_blocked(self, st, count):
        # bounded recursion guard for trigger-only steps
        st.after_end_ops += 1
        if st.after_end_ops > 40:
            raise HarnessHang("blocking recv() never satisfied")
        return self.sock_recv(st, count)

    def _serve_record(self, st, count):
        out = st.record[:count]
        st.record = st.record[count:]
        self.log.append(("recv", st.sid, out, self.now, self.actor, self.ev_index,
                         getattr(st, "record_due", self.now)))
        return out

    @_guard
    def sock_unwrap(self, st):
        self.log_op("tls_unwrap", st, None)
        f = self.fault("unwrap")
        if st.closed:
            raise OSError(errno.EBADF, "Bad file descriptor")
        if f:
            self.raise_fault(f, st)
        if st.broken:
            self.raise_broken(st)
        st.pump()
        if st.inbox or st.record:
            # the peer still has application data in flight
            raise _real_ssl.SSLError(_real_ssl.SSL_ERROR_SSL, "[SSL: APPLICATION_DATA_AFTER_CLOSE_NOTIFY] application data "
                                     "after close notify {0} %s")
        if st.eof:
            raise _real_ssl.SSLEOFError(_real_ssl.SSL_ERROR_EOF, "EOF occurred in violation of protocol")
        st.tls = False          # the peer answered with its own close_notify

    @_guard
    def sock_shutdown(self, st, how):
        f = self.fault("shutdown")
        self.log_op("shutdown", st, None)
        st.shutdown_called = True
        if st.closed:
            raise OSError(errno.EBADF, "Bad file descriptor")
        if f:
            self.raise_fault(f, st)
        if st.broken or not st.connected:
            raise OSError(errno.ENOTCONN, "Transport endpoint is not connected")

    @_guard
    def sock_close(self, st):
        f = self.fault("close")
        self.log_op("close", st, None)
        st.closed = True
        if f:
            self.raise_fault(f, st)

    # -- selector -------------------------------------------------------------
    def selector_created(self, sel, sock):
        st = sock._st
        self.selectors.append([id(sel), st.sid, False])
        self.log_op("selector", st, None)

    def selector_closed(self, sel):
        for rec in self.selectors:
            if rec[0] == id(sel):
                rec[2] = True
        self.log.append(("selector_close", -1, None, self.now, self.actor, self.ev_index))

    @_guard
    def wait_readable(self, sock, timeout):
        st = sock._st
        self.io_point("wait")
        f = self.fault("wait")
        self.waits += 1
        if self.waits > self.MAX_WAITS:
            raise HarnessHang("more than %d selector waits in one connection" % self.MAX_WAITS)
        if f:
            self.log_op("wait_fail", st, f)
            self.raise_fault(f, st)
        t0 = self.now
        st.pump()
        if st.closed:
            # a closed descriptor: poll() reports POLLNVAL -> "readable"
            self._ended(st)
            return True
        if st.raw_readable():
            if st.eof_delivered or st.broken:
                self._ended(st)
            self.wait_log.append((t0, timeout, True, self.now))
            return True
        if timeout is None or timeout < 0:
            # poll() - the platform selector on Linux - waits without limit for a negative timeout as well
            timeout = float("inf")
        nd = st.next_due()
        if nd is not None and nd <= self.now + timeout:
            self.now = max(self.now, nd)
            st.pump()
            if st.raw_readable():
                self.wait_log.append((t0, timeout, True, self.now))
                return True
            # a trigger step fired without making anything readable
            self.wait_log.append((t0, timeout, False, self.now))
            return False
        if timeout == float("inf"):
            raise HarnessHang("infinite selector wait with nothing ever to come")
        hook = self.scn.get("_idle_hook")
        if hook is not None:
            hook(self)          # e.g. park the event-loop thread of a scheduled run
        self.now += timeout
        self.idle_waits += 1
        self.wait_log.append((t0, timeout, False, self.now))
        if self.horizon is not None and self.now > self.horizon:
            raise HarnessHorizon("virtual time passed the scenario horizon %r" % self.horizon)
        return False

    # -- reply materialisation ---------------------------------------------------
    def materialise(self, st, parts):
        out = bytearray()
        for part in parts:
            kind = part[0]
            if kind == "raw":
                out.extend(bytes.fromhex(part[1]))
            elif kind == "reply":
                from . import httpref
                out.extend(httpref.build_reply(part[1], st.request))
            elif kind == "reply_auto":
                # the canonical reply, accepting permessage-deflate iff the request offered it
                from . import httpref
                offered = st.request is not None and b"permessage-deflate" in st.request
                out.extend(httpref.build_reply(
                    httpref.canonical_spec(extensions=["permessage-deflate"]) if offered else None, st.request))
            elif kind == "bytes":
                out.extend(part[1])
            else:
                raise HarnessHang("unknown stream part %r" % (kind,))
        return bytes(out)

    # -- summaries ------------------------------------------------------------------
    def client_bytes(self, sid=None):
        return b"".join(e[2] for e in self.log if e[0] == "send" and (sid is None or e[1] == sid))

    def sends(self, sid=None):
        return [e for e in self.log if e[0] == "send" and (sid is None or e[1] == sid)]


# ---------------------------------------------------------------------------
# driver

EVENT_ATTRS = ("url", "proxy", "reason", "graceful", "text", "data", "code",
               "error", "critical", "delay", "protocol", "extensions")
MESSAGE_EVENTS = ("text", "binary", "ping", "pong", "closing", "closed")


def snapshot_event(ev):
    snap = {"name": getattr(ev, "name", type(ev).__name__)}
    for a in EVENT_ATTRS:
        if hasattr(ev, a):
            v = getattr(ev, a)
            if isinstance(v, (bytearray, memoryview)):
                v = bytes(v)
            elif isinstance(v, (set, frozenset)):
                v = sorted(v)
            snap[a] = v
    if hasattr(ev, "response"):
        r = ev.response
        snap["status_code"] = getattr(r, "status_code", None)
    return snap


class AppRaise(Exception):
    """Raised by the application's handler (reaction 'raise')."""


class Trace(object):
    def __init__(self):
        self.events = []        # snapshots taken when yielded (+ "t", "obj")
        self.objs = []          # the event objects themselves
        self.actions = []       # results of application actions
        self.escaped = None     # exception that escaped next()
        self.hang = None
        self.horizon = False
        self.ended = None       # 'stop' | 'abandon:<mech>' | 'horizon' | 'escaped' | 'hang'
        self.post_stop = None   # True if a further next() raised StopIteration
        self.sim = None
        self.ws = None
        self.held = None        # generator of an abandoned run that is kept alive ("hold")
        self.companion = None
        self.abandon_error = None

    def names(self):
        return [e["name"] for e in self.events]

    def mutated(self):
        """Indices of events whose payload no longer equals its snapshot."""
        out = []
        for i, (snap, obj) in enumerate(zip(self.events, self.objs)):
            again = snapshot_event(obj)
            for k, v in again.items():
                if snap.get(k) != v:
                    out.append(i)
                    break
        return out


def _match(rule_when, ev_index, name, counts, msg_ordinal, now, fired):
    kind = rule_when[0]
    if kind == "event":
        nth = rule_when[2] if len(rule_when) > 2 else None
        return name == rule_when[1] and (nth is None or counts[name] - 1 == nth)
    if kind == "index":
        return ev_index == rule_when[1]
    if kind == "msg":
        return msg_ordinal is not None and msg_ordinal == rule_when[1]
    if kind == "time":
        return now >= rule_when[1] and not fired
    if kind == "time_after_ready":
        return now >= rule_when[1] and not fired and counts.get("ready", 0) > 0
    if kind == "every":
        return True
    return False


BAD_CALLS = ("bad_close_reason", "bad_close_code", "bad_ping", "bad_pong", "bad_text", "bad_binary", "bad_json")


def do_bad_call(ws, kind):
    """A call whose arguments cannot be sent (C03: raises TypeError/ValueError and writes nothing); the application
    catches the error and carries on.  Returns 'rejected', 'refused' (WebSocketError: not connected / closing),
    'accepted' or the name of another exception."""
    try:
        if kind == "bad_close_reason":
            ws.close(1000, "r" * 124)
        elif kind == "bad_close_code":
            ws.close(70000, "too big a code")
        elif kind == "bad_ping":
            ws.send_ping(b"p" * 126)
        elif kind == "bad_pong":
            ws.send_pong(b"q" * 200)
        elif kind == "bad_text":
            ws.send_text(b"bytes are not text")
        elif kind == "bad_binary":
            ws.send_binary(u"text is not bytes")
        elif kind == "bad_json":
            ws.send_json({"unencodable": {1, 2, 3}})
        else:
            raise HarnessHang("unknown bad call %r" % (kind,))
    except HarnessSignal:
        raise
    except (TypeError, ValueError):
        return "rejected"
    except Exception as error:
        if "WebSocketError" in [c.__name__ for c in type(error).__mro__]:
            return "refused"
        return type(error).__name__
    return "accepted"


def do_action(ws, action, sim):
    """Perform one application action; return (result, exception-or-None)."""
    kind = action[0]
    if kind == "send_text":
        ws.send_text(action[1], *action[2:3])
    elif kind == "send_binary":
        ws.send_binary(bytes.fromhex(action[1]), *action[2:3])
    elif kind == "send_json":
        ws.send_json(action[1])
    elif kind == "ping":
        ws.send_ping(bytes.fromhex(action[1]))
    elif kind == "pong":
        ws.send_pong(bytes.fromhex(action[1]))
    elif kind == "close":
        if len(action) == 1:
            ws.close()
        else:
            reason = action[2]
            if isinstance(reason, list):   # ["b", hex]
                reason = bytes.fromhex(reason[1])
            ws.close(action[1], reason)
    elif kind == "sleep":
        sim.now += action[1]
    else:
        raise HarnessHang("unknown action %r" % (action,))


TERMINAL_ACTIONS = ("break", "raise", "gen_close", "with_exit", "with_exit_long_text", "hold", "gen_close_other_thread",
                    "drop_in_other_thread")
# the text of the exception that leaves a with-block: short, or long with multi-byte and format characters
LONG_EXCEPTION_TEXT = "handler failed: \u00e9\u20ac {} %s {0!r} " * 12


# WebSocket.connect() as documented (docs/guide + docstring): parameter order and defaults
CONNECT_SIGNATURE = (("session_class", None), ("poll", 5.0), ("ping_rate", 30.0), ("ping_timeout", None), ("auto_pong", True),
                     ("close_timeout", 30.0))


def positional_connect_args(copts):
    """The options of a connect() call as an application passes them POSITIONALLY: everything up to the last option it
    sets, in the documented order, unset ones at their documented defaults."""
    from lomond.session import WebsocketSession
    unknown = set(copts) - set(n for n, _ in CONNECT_SIGNATURE)
    if unknown:
        raise HarnessBug("connect option(s) %s not in the documented signature" % sorted(unknown))
    last = max(i for i, (n, _) in enumerate(CONNECT_SIGNATURE) if n in copts)
    args = []
    for n, default in CONNECT_SIGNATURE[:last + 1]:
        if n == "session_class":
            args.append(copts.get(n, WebsocketSession))
        else:
            args.append(copts.get(n, default))
    return args


def make_ws(scenario):
    from lomond.websocket import WebSocket
    kw = dict(CASE_WSOPTS or {})
    kw.update(scenario.get("ws_opts", {}))
    headers = kw.pop("headers", [])
    url = scenario.get("url", "ws://example.test/")
    if "proxies" not in kw:
        kw["proxies"] = {}
    elif kw["proxies"] == "env":
        kw["proxies"] = None
    ws = WebSocket(url, **kw)
    for h, v in headers:
        ws.add_header(bytes.fromhex(h), bytes.fromhex(v))
    return ws


class Companion(object):
    """A SECOND live connection in the same process (its own WebSocket object, its own simulated network and clock),
    used by a different activity than the connection under test.  Two threads each driving one connection is a
    schedule in which their steps interleave; here the interleaving is produced on one thread:

    * mode "interleaved": whenever the connection under test hands an event to its application, the companion's
      thread gets to run until ITS next event (one selector wait, one read of a scripted frame of varying size,
      one parse).  The connection under test then resumes in the middle of whatever read it was working through.
    * mode "blocked_in_send": the companion's application is inside send_binary(), blocked in sendall() because its
      peer stopped reading (holding whatever locks a send holds), for the WHOLE life of the connection under test.

    Connections are independent: nothing of this may show in the connection under test."""

    SIZES = (40, 3000, 200, 70000, 900, 1, 66000, 130)
    _SCRIPTS = {}      # the companion's server script, built once per process

    def __init__(self, spec, scenario):
        from . import wire
        self.spec = spec
        self.mode = spec.get("mode", "interleaved")
        self.steps = 0
        self.done = False
        self.stepping = False
        nframes = spec.get("frames", 400)
        script = self._SCRIPTS.get(nframes)
        if script is None:
            script = [["wait_request"], ["stream", [["reply", None]], "whole", 0.0]]
            for i in range(nframes):
                n = self.SIZES[i % len(self.SIZES)]
                body = (b"companion-%04d " % i) * (n // 15 + 1)
                script.append(["stream", [["bytes", wire.build_frame(wire.TEXT if (i % 3 == 0 and n <= 200) else wire.BINARY, body[:n])]],
                               "whole", 0.0])
            script.append(["eof", 0.0])
            self._SCRIPTS[nframes] = script
        self.scn = {"url": "ws://companion.test/", "attempts": [{"script": script}], "ws_opts": {},
                    "connect_opts": {"ping_rate": 0, "poll": 1000.0}}
        self.sim = Sim(self.scn)
        self.ws = None
        self.gen = None

    def _enter(self):
        global CURRENT
        self._prev = CURRENT
        CURRENT = self.sim

    def _leave(self):
        global CURRENT
        CURRENT = self._prev

    def start(self):
        """Connect the companion and run it up to Ready."""
        self._enter()
        try:
            self.ws = make_ws(self.scn)
            self.gen = self.ws.connect(**self.scn["connect_opts"])
            for _ in range(8):
                ev = next(self.gen)
                if getattr(ev, "name", "") == "ready":
                    return
            self.done = True       # the client under test cannot even bring this connection up: go on without it
        except StopIteration:
            self.done = True
        except HarnessSignal:
            raise
        except Exception:
            self.done = True
        finally:
            self._leave()

    def step(self):
        """Let the companion's thread run until its next event."""
        if self.done or self.gen is None or self.stepping:
            return
        self._enter()
        self.stepping = True
        try:
            next(self.gen)
            self.steps += 1
        except StopIteration:
            self.done = True
        except HarnessSignal:
            raise
        except Exception:       # the companion is not the connection under test
            self.done = True
        finally:
            self.stepping = False
            self._leave()

    def run_inside_send(self, body):
        """Run ``body()`` while the companion's application is blocked inside send_binary()."""
        box = {}

        def hook(sim, st, data):
            if "ran" not in box:
                box["ran"] = True
                self._leave()
                try:
                    if ON_BLOCKED is not None:
                        ON_BLOCKED()      # a lock shared between connections would now block for ever: short watchdog
                    box["result"] = body()
                finally:
                    self._enter()
            sim.log_op("send", st, data)
            st.note_write(data)
        if self.done or self.ws is None:
            return body()
        self.sim.scn["_send_hook"] = hook
        self._enter()
        try:
            try:
                self.ws.send_binary(b"a large upload that the peer does not read " * 200)
            except HarnessSignal:
                raise
            except Exception:
                pass
        finally:
            self.sim.scn.pop("_send_hook", None)
            self._leave()
        if "ran" not in box:
            box["result"] = body()      # the send never reached the socket: run without it
        return box["result"]

    def close(self):
        gen, self.gen = self.gen, None
        if gen is not None:
            self._enter()
            try:
                gen.close()
            except BaseException:
                pass
            finally:
                self._leave()


def run_scenario(scenario, on_event=None):
    """Run one connect() of the real client against the scenario; returns a Trace."""
    global CURRENT
    install()
    ws = None
    # the scenario's own prelude, else the one of the case being run (set by the runner from case["prelude"])
    prelude = scenario["prelude"] if "prelude" in scenario else CASE_PRELUDE
    if prelude:
        # an EARLIER connection made in this process, which ended the way the prelude says: on the same
        # WebSocket object (then reused for the run proper) or on another one.  It has its own simulation;
        # whatever it leaves behind in the client is the only thing the run proper can see of it.
        pre = dict(scenario, attempts=prelude["attempts"], reactions=prelude.get("reactions", []), prelude=None,
                   companion=None, context_manager=bool(prelude.get("context_manager")))
        for k in ("masks", "_send_hook", "_idle_hook", "horizon"):
            pre.pop(k, None)
        pre_tr = run_scenario(pre)
        if prelude.get("same_object"):
            ws = pre_tr.ws
        pre_tr.held = None
        del pre_tr
    if ON_RUN is not None:
        ON_RUN()
    cspec = scenario["companion"] if "companion" in scenario else CASE_COMPANION
    companion = None
    if cspec:
        companion = Companion(cspec, scenario)
        companion.start()
    sim = Sim(scenario)
    tr = Trace()
    tr.sim = sim
    tr.log_start = 0
    tr.companion = companion

    def body():
        global CURRENT
        CURRENT = sim
        # "process_env": variables of the REAL process environment for the duration of the run (what library code
        # outside lomond - urllib's proxy helpers, say - gets to see), restored afterwards
        penv = scenario.get("process_env") or {}
        saved = {k: _real_os.environ.get(k) for k in penv}
        _real_os.environ.update(penv)
        try:
            w = ws if ws is not None else make_ws(scenario)
            tr.ws = w
            sim.ws = w
            _drive(w, scenario, sim, tr, on_event, None,
                   companion if (companion is not None and companion.mode == "interleaved") else None)
        finally:
            CURRENT = None
            for k, v in saved.items():
                if v is None:
                    _real_os.environ.pop(k, None)
                else:
                    _real_os.environ[k] = v
    try:
        if companion is not None and companion.mode == "blocked_in_send":
            companion.run_inside_send(body)
        else:
            body()
    finally:
        if companion is not None:
            companion.close()
        CURRENT = None
    tr.log_end = len(sim.log)
    return tr


def run_chain(scenario, count=None, on_event=None):
    """connect() ``count`` times (default: once per scripted attempt) on ONE WebSocket
    object; attempt k may carry its own "reactions" / "connect_opts".  Returns the
    list of Traces (sharing one Sim; each knows its slice of the wire log)."""
    global CURRENT
    install()
    if ON_RUN is not None:
        ON_RUN()
    # an EARLIER connection in this process (see run_scenario): on the same WebSocket object - which the chain then
    # goes on using - or on another one
    prelude = scenario["prelude"] if "prelude" in scenario else CASE_PRELUDE
    pre_ws = None
    if prelude:
        pre = dict(scenario, attempts=prelude["attempts"], reactions=prelude.get("reactions", []), prelude=None,
                   companion=None, context_manager=bool(prelude.get("context_manager")))
        for k in ("masks", "_send_hook", "_idle_hook", "horizon", "io_reactions", "keys"):
            pre.pop(k, None)
        pre_tr = run_scenario(pre)
        if prelude.get("same_object"):
            pre_ws = pre_tr.ws
        pre_tr.held = None
        del pre_tr
        scenario = dict(scenario, _reuse_ws=pre_ws)
    cspec = scenario["companion"] if "companion" in scenario else CASE_COMPANION
    companion = None
    if cspec:
        companion = Companion(cspec, scenario)
        companion.start()
    sim = Sim(scenario)
    if pre_ws is not None and sim.keys:
        # the scripted key list starts with the key drawn when the object is constructed: this object already exists
        sim.keys = sim.keys[1:]
    traces = []
    if companion is not None and companion.mode == "blocked_in_send":
        try:
            companion.run_inside_send(lambda: _run_chain_body(scenario, count, on_event, sim, traces, None))
        finally:
            companion.close()
            CURRENT = None
        return traces
    try:
        _run_chain_body(scenario, count, on_event, sim, traces, companion)
    finally:
        if companion is not None:
            companion.close()
        CURRENT = None
    return traces


def _run_chain_body(scenario, count, on_event, sim, traces, companion):
    global CURRENT
    CURRENT = sim
    try:
        ws = scenario.get("_reuse_ws")
        if ws is None:
            ws = make_ws(scenario)
        sim.ws = ws
        for k in range(count or len(scenario["attempts"])):
            att = scenario["attempts"][k] if k < len(scenario["attempts"]) else {}
            scn_k = dict(scenario)
            if "reactions" in att:
                scn_k["reactions"] = att["reactions"]
            if "connect_opts" in att:
                scn_k["connect_opts"] = att["connect_opts"]
            tr = Trace()
            tr.sim = sim
            tr.ws = ws
            tr.log_start = len(sim.log)
            tr.keys_before = len(sim.keys_issued)
            sim.ev_index = -1
            # the previous attempt may have been abandoned with its generator kept alive ("hold"); this attempt
            # says when that generator is finally dropped: "release_held" = "after_connect" (right after this
            # attempt's connect() call - a variable holding the generator is reused) or an event index of this
            # attempt.  Without it the generator stays alive until the caller clears Trace.held.
            release = None
            if att.get("release_held") is not None and traces and traces[-1].held is not None:
                prev = traces[-1]

                def drop(prev=prev):
                    sim.actor = "app"
                    prev.held = None
                    gc_collect_young()
                release = (att["release_held"], drop)
            _drive(ws, scn_k, sim, tr, on_event, release, companion)
            tr.log_end = len(sim.log)
            traces.append(tr)
    finally:
        CURRENT = None
    return traces


def CURRENT_set(sim):
    global CURRENT
    CURRENT = sim


def gc_collect_young():
    pass    # reference counting finalises the dropped generator at once; kept as a hook


def _drive(ws, scenario, sim, tr, on_event, release=None, companion=None):
    global ACTIVE_COMPANION
    ACTIVE_COMPANION = companion
    managed = bool(scenario.get("context_manager"))
    if managed:
        # the application uses the WebSocket as a context manager around this connection ("with ws: for event in ws")
        ws.__enter__()
    try:
        return _drive_inner(ws, scenario, sim, tr, on_event, release, companion)
    finally:
        ACTIVE_COMPANION = None
        if managed:
            try:
                ws.__exit__(None, None, None)
            except Exception as error:
                tr.abandon_error = "__exit__: %s: %s" % (type(error).__name__, error)


def _drive_inner(ws, scenario, sim, tr, on_event, release=None, companion=None):
    noise = scenario["noise_calls"] if "noise_calls" in scenario else (CASE_NOISE or [])
    noise_fired = [False] * len(noise)
    tr.noise = []
    copts = dict(CASE_COPTS or {})
    copts.update(scenario.get("connect_opts", {}))
    rules = scenario.get("reactions", [])
    fired = [False] * len(rules)
    counts = {}
    msg_ord = -1
    use_with = any(a[0] in ("with_exit", "with_exit_long_text") for r in rules for a in r["do"])
    if scenario.get("connect_positional", CASE_POSITIONAL) and copts:
        gen = ws.connect(*positional_connect_args(copts))
    else:
        gen = ws.connect(**copts)
    if release is not None and release[0] == "after_connect":
        release[1]()
        release = None
    abandon = None
    try:
        while True:
            sim.actor = "lib"
            try:
                ev = next(gen)
            except StopIteration:
                tr.ended = "stop"
                break
            except HarnessHang as hang:
                tr.hang = str(hang)
                tr.ended = "hang"
                break
            except HarnessHorizon:
                tr.horizon = True
                tr.ended = "horizon"
                break
            except Exception as error:  # escaped the iterator: a finding for C07/C09
                tr.escaped = "%s: %s" % (type(error).__name__, error)
                tr.ended = "escaped"
                break
            sim.actor = "app"
            idx = len(tr.events)
            sim.ev_index = idx
            snap = snapshot_event(ev)
            snap["t"] = sim.now
            name = snap["name"]
            counts[name] = counts.get(name, 0) + 1
            this_msg = None
            if name in MESSAGE_EVENTS:
                msg_ord += 1
                this_msg = msg_ord
            tr.events.append(snap)
            tr.objs.append(ev)
            if release is not None and release[0] == idx:
                release[1]()
                release = None
            if companion is not None:
                # the other connection's thread runs while this one's application has the event
                companion.step()
                CURRENT_set(sim)
            for ni, nz in enumerate(noise):
                # the application tries a call with unsendable arguments at this event and catches the error
                if not noise_fired[ni] and _match(nz["when"], idx, name, counts, this_msg, sim.now, False):
                    noise_fired[ni] = True
                    before = len(sim.log)
                    outcome = do_bad_call(ws, nz["do"])
                    wrote = sum(1 for e in sim.log[before:] if e[0] in ("send", "send_fail") and e[2])
                    tr.noise.append((idx, nz["do"], outcome, wrote))
                    if outcome == "accepted" or wrote:
                        NOISE_PROBLEMS.append("%s at event %d (%s) was %s and wrote %d times" % (nz["do"], idx, name, outcome, wrote))
            if on_event is not None:
                on_event(ws, ev, tr)
            for ri, rule in enumerate(rules):
                if not _match(rule["when"], idx, name, counts, this_msg, sim.now, fired[ri]):
                    continue
                fired[ri] = True
                for action in rule["do"]:
                    if action[0] in TERMINAL_ACTIONS:
                        abandon = action[0]
                        break
                    rec = {"ev": idx, "action": action, "log_before": len(sim.log)}
                    try:
                        do_action(ws, action, sim)
                        rec["result"] = "ok"
                    except HarnessSignal:
                        raise
                    except Exception as error:
                        rec["result"] = type(error).__name__
                        rec["mro"] = [c.__name__ for c in type(error).__mro__]
                        rec["msg"] = str(error)
                    rec["log_after"] = len(sim.log)
                    tr.actions.append(rec)
                if abandon:
                    break
            if abandon:
                break
            if len(tr.events) > scenario.get("max_events", 20000):
                tr.hang = "more than %d events" % scenario.get("max_events", 20000)
                tr.ended = "hang"
                break
    except HarnessHang as hang:
        tr.hang = str(hang)
        tr.ended = "hang"
    if abandon:
        tr.ended = "abandon:" + abandon
        tr.abandon_error = None
        try:
            if abandon == "hold":
                # the consumer stops iterating but keeps the generator object alive (a variable,
                # a traceback ...); it is finalised later, when the caller drops ``tr.held``
                tr.held = gen
            elif abandon == "gen_close":
                gen.close()
            elif abandon in ("gen_close_other_thread", "drop_in_other_thread"):
                # the consumer iterated on this thread; ANOTHER thread finalises the generator (a supervisor
                # closing it, or the last reference dying there)
                import threading
                box = {"gen": gen}
                del gen
                errs = []

                def finalise():
                    try:
                        g = box.pop("gen")
                        if abandon == "gen_close_other_thread":
                            g.close()
                        del g
                    except BaseException as error:     # noqa - re-raised on the main thread
                        errs.append(error)
                t = threading.Thread(target=finalise, name="verif-finaliser")
                t.start()
                t.join(60)
                gen = None
                if t.is_alive():
                    raise HarnessHang("finalising the generator on another thread did not return")
                if errs:
                    raise errs[0]
            elif abandon == "raise":
                # what a for-loop does when its body raises: the generator is
                # simply dropped
                pass
            elif abandon in ("with_exit", "with_exit_long_text"):
                try:
                    with ws:
                        raise AppRaise("handler failed inside with-block" if abandon == "with_exit" else LONG_EXCEPTION_TEXT)
                except AppRaise:
                    pass
        except HarnessSignal as sig:
            tr.hang = str(sig)
        except Exception as error:
            tr.abandon_error = "%s: %s" % (type(error).__name__, error)
        del gen
    elif tr.ended == "stop":
        try:
            next(gen)
            tr.post_stop = False
        except StopIteration:
            tr.post_stop = True
        except BaseException:
            tr.post_stop = False
        del gen
    else:
        # hang / horizon / escaped: finalise the generator quietly
        try:
            gen.close()
        except BaseException:
            pass
        del gen
    sim.actor = "lib"
