"""Reference client-side reading of RFC 6455 sections 5-7 (+ RFC 7692 framing).

``interpret(data, deflate)`` takes the bytes a server sent *after* its handshake
reply and returns what a conforming client must make of them:

    events     - message events (text/binary/ping/pong/closing) in completion order,
                 up to the first violation
    violation  - None or a class name; ``violation_at`` = offset of the violating frame
    unspecified- True when the RFC / the property do not fix the outcome (the oracle
                 then skips the content comparison)
    incomplete - the bytes end inside a frame

Written from the RFCs; shares no code with lomond.
"""
import struct
import zlib

from . import utf8ref, wire

VALID_CLOSE = set([1000, 1001, 1002, 1003, 1007, 1008, 1009, 1010, 1011, 1012, 1013]) | set(range(3000, 5000))
INVALID_CLOSE = (set(range(0, 1000)) | {1004, 1005, 1006, 1015} | set(range(1016, 3000)))
# 1014 and >= 5000: not fixed by the property -> unspecified


class Interp(object):
    def __init__(self):
        self.events = []
        self.violation = None
        self.violation_at = None
        self.violation_frame = None
        self.unspecified = False
        self.incomplete = False
        self.frames = []
        self.closed_by_server = False
        self.pending_fragments = 0
        self.early = None        # violation already visible in the header of an incomplete frame


def header_violation(f, deflate):
    """Violation class visible from the frame header alone, or None."""
    if f.rsv2 or f.rsv3:
        return "reserved_bits"
    if f.rsv1 and not deflate:
        return "reserved_bits"
    if f.opcode not in wire.OPNAMES:
        return "reserved_opcode"
    if f.opcode >= 8 and not f.fin:
        return "fragmented_control"
    if f.opcode >= 8 and len(f.payload) > 125:
        return "control_too_long"
    if f.masked:
        return "masked_frame"
    return None


def interpret(data, deflate=None):
    """deflate: None or dict(server_nct=bool) (window is irrelevant for inflating)."""
    it = Interp()
    pos = 0
    n = len(data)
    cur = None           # [opcode, rsv1, [payload pieces]] of the message in progress
    inflater = zlib.decompressobj(-15) if deflate else None
    while pos < n:
        # the 2**63 rule is visible before the frame is complete
        if n - pos >= 10 and (data[pos + 1] & 127) == 127:
            (ln,) = struct.unpack_from("!Q", data, pos + 2)
            if ln >= 1 << 63:
                it.violation = "length_2^63"
                it.violation_at = pos
                return it
        f, pos2 = wire.parse_frame(data, pos)
        if f is None:
            it.incomplete = True
            hf, ln = wire.parse_header(data, pos)
            if hf is not None:
                v = header_violation(hf, deflate)
                if v is None and hf.opcode >= 8 and ln > 125:
                    v = "control_too_long"
                if v is None and hf.opcode == wire.CONT and cur is None:
                    v = "nothing_to_continue"
                if v is None and hf.opcode in (wire.TEXT, wire.BINARY) and cur is not None:
                    v = "expected_continuation"
                if v is None and not deflate and not hf.masked and (
                        hf.opcode == wire.TEXT or (hf.opcode == wire.CONT and cur is not None and cur[0] == wire.TEXT)):
                    # fail-fast: the part of the text payload that has arrived may already be invalid
                    hdr = 2 + {7: 0, 16: 2, 64: 8}[hf.form]
                    sofar = (b"".join(cur[2]) if (cur is not None and hf.opcode == wire.CONT) else b"") + data[pos + hdr:]
                    if utf8ref.first_offending_index(sofar) is not None:
                        v = "text_bad_utf8"
                it.early = v
            break
        it.frames.append(f)
        v = header_violation(f, deflate)
        if v is None and deflate and f.rsv1 and (f.opcode >= 8 or f.opcode == wire.CONT):
            # RSV1 on a control or continuation frame with the extension negotiated:
            # RFC 7692 forbids it, the property does not list it.
            it.unspecified = True
            return it
        if v is None:
            if f.opcode == wire.CONT:
                if cur is None:
                    v = "nothing_to_continue"
            elif f.opcode in (wire.TEXT, wire.BINARY):
                if cur is not None:
                    v = "expected_continuation"
        if v is not None:
            it.violation, it.violation_at, it.violation_frame = v, pos, f
            return it
        pos = pos2
        if f.opcode >= 8:
            if f.opcode == wire.PING:
                it.events.append({"name": "ping", "data": f.payload})
            elif f.opcode == wire.PONG:
                it.events.append({"name": "pong", "data": f.payload})
            else:
                p = f.payload
                if len(p) == 1:
                    v = "close_1_byte"
                elif len(p) >= 2:
                    (code,) = struct.unpack("!H", p[:2])
                    if code in INVALID_CLOSE:
                        v = "close_reserved_code"
                    elif code not in VALID_CLOSE:
                        it.unspecified = True
                        return it
                    elif not utf8ref.is_valid(p[2:]):
                        v = "close_bad_utf8"
                    else:
                        it.events.append({"name": "closing", "code": code,
                                          "reason": utf8ref.decode(p[2:])})
                else:
                    it.events.append({"name": "closing", "code": None, "reason": ""})
                if v is not None:
                    it.violation, it.violation_at, it.violation_frame = v, f.start, f
                    return it
                it.closed_by_server = True
                it.after_close = data[pos:]
                return it
            continue
        if f.opcode != wire.CONT:
            cur = [f.opcode, f.rsv1, []]
        cur[2].append(f.payload)
        if cur[0] == wire.TEXT and not deflate and not f.fin:
            # the frame that carries the first offending byte is the violating frame, also
            # when it is not the last fragment (on a connection without compression)
            if utf8ref.first_offending_index(b"".join(cur[2])) is not None:
                it.violation, it.violation_at, it.violation_frame = "text_bad_utf8", f.start, f
                return it
        if not f.fin:
            continue
        opcode, rsv1, pieces = cur
        first_start = f.start
        cur = None
        payload = b"".join(pieces)
        if rsv1:
            try:
                payload = inflater.decompress(payload + b"\x00\x00\xff\xff")
                if inflater.eof or inflater.unused_data:
                    # a block with BFINAL set / bytes after the end of the deflate stream:
                    # RFC 7692 leaves the receiver's duty open and the property does not fix it
                    it.unspecified = True
                    return it
                if deflate.get("server_nct"):
                    inflater = zlib.decompressobj(-15)
            except zlib.error:
                it.violation, it.violation_at, it.violation_frame = "bad_deflate", first_start, f
                return it
        if opcode == wire.TEXT:
            if not utf8ref.is_valid(payload):
                it.violation, it.violation_at, it.violation_frame = "text_bad_utf8", first_start, f
                return it
            it.events.append({"name": "text", "text": utf8ref.decode(payload)})
        else:
            it.events.append({"name": "binary", "data": payload})
    it.pending_fragments = 0 if cur is None else len(cur[2])
    return it


def selftest():
    B = wire.build_frame
    it = interpret(B(wire.TEXT, b"He", fin=0) + B(wire.PING, b"p") + B(wire.CONT, b"llo") +
                   B(wire.BINARY, b"\x00\xff") + B(wire.CLOSE, b"\x03\xe8bye"))
    assert [e["name"] for e in it.events] == ["ping", "text", "binary", "closing"], it.events
    assert it.events[1]["text"] == "Hello" and it.events[3] == {"name": "closing", "code": 1000, "reason": "bye"}
    assert it.violation is None
    cases = [
        (B(3, b""), "reserved_opcode"), (B(wire.TEXT, b"", rsv1=1), "reserved_bits"),
        (B(wire.PING, b"", fin=0), "fragmented_control"), (B(wire.PING, b"x" * 126), "control_too_long"),
        (B(wire.TEXT, b"x", mask=b"abcd"), "masked_frame"), (B(wire.CONT, b"x"), "nothing_to_continue"),
        (B(wire.TEXT, b"x", fin=0) + B(wire.TEXT, b"y"), "expected_continuation"),
        (B(wire.BINARY, b"", form=64, declared_len=1 << 63), "length_2^63"),
        (B(wire.CLOSE, b"\x03"), "close_1_byte"), (B(wire.CLOSE, b"\x03\xed"), "close_reserved_code"),
        (B(wire.CLOSE, b"\x03\xe8\xff"), "close_bad_utf8"), (B(wire.TEXT, b"\xc0\xaf"), "text_bad_utf8"),
        (B(wire.TEXT, b"\xe2\x82", fin=0) + B(wire.CONT, b"\x41"), "text_bad_utf8"),
    ]
    for data, want in cases:
        got = interpret(B(wire.BINARY, b"ok") + data)
        assert got.violation == want, (want, got.violation)
        assert [e["name"] for e in got.events] == ["binary"]
    it = interpret(B(wire.TEXT, b"\x00", rsv1=1), {"server_nct": False})
    assert it.events == [{"name": "text", "text": ""}]
