"""Pure builders: compact JSON case pieces -> bytes / scenarios / expectations.

Everything here is a deterministic function of its arguments (large payloads are
expanded from a drawn integer with ``random.Random(seed)``), imports neither
lomond nor Hypothesis, and is shared by all properties.
"""
import random
import struct

from . import wire

URL = "ws://example.test/"

BOUNDARY_LENS = (0, 1, 2, 124, 125, 126, 127, 128, 255, 256, 65534, 65535,
                 65536, 65537, 70000, 131072)

_CHAR_CLASSES = (
    (50, (0x20, 0x7e)),
    (15, (0x80, 0x7ff)),
    (14, (0x800, 0xd7ff)),
    (6, (0xe000, 0xffff)),
    (10, (0x10000, 0x10ffff)),
)
_BOUNDARY_CHARS = (0x0, 0x7f, 0x80, 0x7ff, 0x800, 0xd7ff, 0xe000, 0xfffd, 0xffff,
                   0x10000, 0x10ffff, 0x1f600, 0xa, 0xd)


def text_from_seed(nchars, seed):
    rnd = random.Random(seed)
    out = []
    weights = [w for w, _ in _CHAR_CLASSES]
    ranges = [r for _, r in _CHAR_CLASSES]
    for _ in range(nchars):
        if rnd.random() < 0.05:
            out.append(chr(rnd.choice(_BOUNDARY_CHARS)))
        else:
            lo, hi = rnd.choices(ranges, weights)[0]
            out.append(chr(rnd.randint(lo, hi)))
    return "".join(out)


def expand(spec):
    """payload spec -> bytes.

    ["hex", h] | ["rand", n, seed] | ["rep", n, seed] | ["zero", n] | ["echo", n, seed, dist]
    | ["text", nchars, seed] | ["str", s]
    """
    kind = spec[0]
    if kind == "hex":
        return bytes.fromhex(spec[1])
    if kind == "rand":
        return random.Random(spec[2]).randbytes(spec[1])
    if kind == "rep":
        rnd = random.Random(spec[2])
        unit = rnd.randbytes(rnd.randint(1, 40))
        n = spec[1]
        return (unit * (n // len(unit) + 1))[:n]
    if kind == "zero":
        return b"\0" * spec[1]
    if kind == "echo":
        # ["echo", n, seed, dist]: a random block of dist bytes repeated up to n bytes - every byte after the first
        # block can be coded as a back-reference over exactly that distance (what an LZ77 window is for)
        unit = random.Random(spec[2]).randbytes(max(1, spec[3]))
        n = spec[1]
        return (unit * (n // len(unit) + 1))[:n]
    if kind == "text":
        return text_from_seed(spec[1], spec[2]).encode("utf-8")
    if kind == "str":
        return spec[1].encode("utf-8")
    raise ValueError("bad payload spec %r" % (spec,))


def expand_text(spec):
    if spec[0] == "text":
        return text_from_seed(spec[1], spec[2])
    if spec[0] == "str":
        return spec[1]
    if spec[0] == "ascii":
        rnd = random.Random(spec[2])
        return "".join(chr(rnd.randint(0x20, 0x7e)) for _ in range(spec[1]))
    raise ValueError("bad text spec %r" % (spec,))


def pick_form(n, choice):
    """choice 0 -> minimal, 1 -> next wider legal form, 2 -> 64-bit."""
    minimal = 7 if n < 126 else (16 if n < 65536 else 64)
    if choice == 0:
        return minimal
    if choice == 1:
        return {7: 16, 16: 64, 64: 64}[minimal]
    return 64


OPC = {"text": wire.TEXT, "binary": wire.BINARY, "ping": wire.PING,
       "pong": wire.PONG, "close": wire.CLOSE}


def message_payload(msg):
    """(wire payload bytes, expected event dict) of a message spec."""
    kind = msg["kind"]
    if kind == "text":
        s = expand_text(msg["payload"])
        return s.encode("utf-8"), {"name": "text", "text": s}
    if kind == "binary":
        b = expand(msg["payload"])
        return b, {"name": "binary", "data": b}
    if kind in ("ping", "pong"):
        b = expand(msg["payload"])
        return b, {"name": kind, "data": b}
    if kind == "close":
        code = msg.get("code")
        if code is None:
            return b"", {"name": "closing", "code": None, "reason": ""}
        reason = msg.get("reason", "")
        return struct.pack("!H", code) + reason.encode("utf-8"), \
            {"name": "closing", "code": code, "reason": reason}
    raise ValueError("bad message kind %r" % (kind,))


class Built(object):
    """Result of building a server session."""

    def __init__(self):
        self.data = bytearray()
        self.expected = []      # events in completion order
        self.regions = []       # (start, end, what) structure map of ``data``
        self.frames = []        # (start, end, opcode, fin, len, form)
        self.flags = set()

    def add_frame(self, opcode, payload, fin=1, rsv1=0, form_choice=0, msg_index=None):
        n = len(payload)
        form = pick_form(n, form_choice)
        raw = wire.build_frame(opcode, payload, fin=fin, rsv1=rsv1, form=form)
        start = len(self.data)
        hdr = len(raw) - n
        self.regions.append((start, start + hdr, "header"))
        if n:
            self.regions.append((start + hdr, start + hdr + n, "payload"))
        self.frames.append((start, start + len(raw), opcode, fin, n, form))
        minimal = pick_form(n, 0)
        if form != minimal:
            self.flags.add("non_minimal_length")
        self.flags.add("form%d" % form)
        if n >= 65536:
            self.flags.add("payload>=65536")
        if n == 0 and opcode in (wire.CONT, wire.TEXT, wire.BINARY) and not (fin and opcode != wire.CONT):
            self.flags.add("empty_fragment")
        self.data.extend(raw)


def build_message(built, msg, deflater=None):
    """Append the frames of one message spec to ``built``.

    msg = {"kind", "payload"/..., "frag": [cut positions], "forms": [choices],
           "inter": [[after_fragment_index, control message spec], ...],
           "compress": bool}
    """
    payload, expected = message_payload(msg)
    kind = msg["kind"]
    opcode = OPC[kind]
    forms = msg.get("forms") or [0]
    if opcode >= 8:
        built.add_frame(opcode, payload, form_choice=forms[0])
        built.expected.append(expected)
        return
    rsv1 = 0
    body = payload
    if msg.get("compress") and deflater is not None:
        body = deflater(payload, msg)
        rsv1 = 1
        built.flags.add("compressed")
    cuts = sorted(min(max(c, 0), len(body)) for c in msg.get("frag", []))
    pieces = []
    last = 0
    for c in cuts:
        pieces.append(body[last:c])
        last = c
    pieces.append(body[last:])
    inter = {}
    for after, ctrl in msg.get("inter", []):
        inter.setdefault(after % len(pieces), []).append(ctrl)
    if len(pieces) > 1:
        built.flags.add("fragmented")
    for i, piece in enumerate(pieces):
        fin = 1 if i == len(pieces) - 1 else 0
        op = opcode if i == 0 else wire.CONT
        built.add_frame(op, piece, fin=fin, rsv1=rsv1 if i == 0 else 0,
                        form_choice=forms[i % len(forms)])
        if not fin:
            for ctrl in inter.get(i, []):
                built.flags.add("interleaved_control")
                build_message(built, ctrl)
    built.expected.append(expected)


def build_session(msgs, deflater=None):
    built = Built()
    for m in msgs:
        build_message(built, m, deflater)
    return built


def classify_cuts(built, offset, cuts):
    """Which structural regions do the cut positions (absolute, in a stream that
    has ``offset`` bytes of HTTP reply before the frames) fall strictly inside?"""
    out = set()
    for c in cuts:
        if 0 < c < offset:
            out.add("cut_in_http_reply")
            continue
        p = c - offset
        for start, end, what in built.regions:
            if start < p < end:
                out.add("cut_in_" + what)
                if what == "header" and end - start > 2 and p - start >= 2:
                    out.add("cut_in_extended_length")
                break
    return out


def scenario(parts_steps, url=URL, ws_opts=None, connect_opts=None, reactions=None,
             attempt_extra=None, **extra):
    att = {"script": parts_steps}
    if attempt_extra:
        att.update(attempt_extra)
    scn = {"url": url, "attempts": [att]}
    if ws_opts:
        scn["ws_opts"] = ws_opts
    if connect_opts:
        scn["connect_opts"] = connect_opts
    if reactions:
        scn["reactions"] = reactions
    scn.update(extra)
    return scn


# ---- an earlier connection in the same process ("prelude") -------------------------------------------------
# How a PREVIOUS connection ended before the one under test is made - on the same WebSocket object or on
# another one.  A client keeps no state between connections (C17), so none of this may show.
def _prelude_streams():
    from . import wire
    B = wire.build_frame
    import struct
    return {
        "clean_close": B(wire.TEXT, b"hi") + B(wire.CLOSE, struct.pack("!H", 1000) + b"bye"),
        "close_reason_cut_mid_char": B(wire.CLOSE, struct.pack("!H", 1000) + b"caf\xc3"),
        "close_reason_invalid": B(wire.CLOSE, struct.pack("!H", 1000) + b"\xff\xfe"),
        "text_cut_mid_char": B(wire.TEXT, b"ab\xe2\x82", fin=0),
        "text_cut_mid_4byte_char": B(wire.TEXT, b"\xf0\x9f", fin=0),
        "text_invalid": B(wire.TEXT, b"\xc3\x28"),
        "cut_in_len16": B(wire.TEXT, b"a" * 300)[:3],
        "cut_in_len64": B(wire.BINARY, b"a" * 70000)[:5],
        "cut_in_header": B(wire.TEXT, b"abc")[:1],
        "cut_in_payload": B(wire.BINARY, b"b" * 300)[:40],
        # what is left unread looks like text a line-oriented parser reacts to (spaces, CRLF, a header block)
        "cut_in_payload_with_spaces": B(wire.TEXT, b"the quick brown fox jumps over the lazy dog")[:27],
        "cut_in_payload_looks_like_http": B(wire.BINARY, b"HTTP/1.1 200 OK\r\nSec-WebSocket-Accept: stale\r\nUpgrade: no\r\n\r\n"
                                            b"HTTP/1.1 403 Forbidden\r\n\r\ntrailing words")[:-6],
        "open_text_fragment": B(wire.TEXT, b"abc", fin=0),
        "open_binary_fragment": B(wire.BINARY, b"abc", fin=0) + B(wire.PING, b"p"),
        "reserved_bits": B(wire.TEXT, b"x", rsv2=1),
        "oversize_control": B(wire.PING, b"p" * 126),
        "ping_then_eof": B(wire.PING, b"last"),
        "nothing": b"",
        # compressed traffic (the earlier connection accepts permessage-deflate whenever the client offers it;
        # otherwise these are RSV1 violations - one more abnormal ending)
        "compressed_message_then_open_fragment": _compressed_prelude(False),
        "compressed_bfinal_message": _compressed_prelude(True),
    }


def _compressed_prelude(final):
    from . import wire, deflateref
    peer = deflateref.Peer()
    one = peer.compress(b"history of the earlier connection " * 6, final=final)
    two = peer.compress(b"history of the earlier connection, continued " * 4)
    return wire.build_frame(wire.TEXT, one, rsv1=1) + wire.build_frame(wire.BINARY, two[:len(two) // 2], rsv1=1, fin=0)


PRELUDE_REPLIES = {
    # the handshake of the earlier connection itself went wrong
    "reply_cut_after_status_line": {"raw": b"HTTP/1.1 101 Switching Protocols\r\n".hex()},
    "reply_cut_in_header": {"raw": b"HTTP/1.1 101 Switching Protocols\r\nUpgrade: websoc".hex()},
    "reply_403": {"status": 403, "reason": "Forbidden", "headers": [["Content-Length", "0"]]},
}
PRELUDE_KINDS = sorted(_prelude_streams()) + sorted(PRELUDE_REPLIES)
PRELUDE_ENDS = ("eof", "reset")


def prelude(spec, reply=None):
    """spec = None | {"kind": one of PRELUDE_KINDS, "same": bool, "end": "eof"|"reset"} -> the scenario's
    "prelude" value (None when spec is None).  ``reply`` = the handshake reply spec of the earlier connection
    (the caller's own, e.g. with the extension negotiated)."""
    if not spec:
        return None
    kind = spec["kind"]
    if kind in PRELUDE_REPLIES:
        parts = [["reply", PRELUDE_REPLIES[kind]]]
    else:
        parts = [["reply", reply] if reply is not None else ["reply_auto"], ["bytes", _prelude_streams()[kind]]]
    script = [["wait_request"], ["stream", parts, "whole", 0.0], [spec.get("end", "eof"), 0.0]]
    # the earlier connection's application sent something too (compressed when the extension is on)
    reactions = [{"when": ["event", "ready", 0], "do": [["send_text", "earlier connection " * 3], ["send_binary", "00ff" * 10]]}]
    return {"attempts": [{"script": script}], "reactions": reactions, "same_object": bool(spec.get("same")),
            # the earlier connection was made inside a "with ws:" block (left normally when it ended)
            "context_manager": bool(spec.get("with"))}
