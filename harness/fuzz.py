"""atheris (libFuzzer) tier - run under python3-vt:

    python3-vt harness/fuzz.py <c02|c04> --runs N --seed S --out DIR [--empty-corpus]

The fuzz target decodes the libFuzzer bytes into the same JSON case that the property's
``run_case`` replays, and puts the property's oracle INSIDE the target.  A failing case is
written to DIR/failure.json (the replay file) before the target raises.
"""
import argparse
import json
import os
import sys

HERE = os.path.dirname(os.path.dirname(os.path.abspath(__file__)))
sys.path.insert(0, HERE)

from harness import boot  # noqa: E402


def decode_c02(data):
    """flags(1) | ncuts(1) | cuts (2 bytes each) | stream bytes"""
    if len(data) < 2:
        return None
    flags, ncuts = data[0], data[1] % 9
    pos = 2
    cuts = []
    for _ in range(ncuts):
        if pos + 2 > len(data):
            break
        cuts.append(1 + (data[pos] << 8 | data[pos + 1]) % 400)
        pos += 2
    stream = data[pos:]
    seg = ["cuts", cuts] if cuts else ("bytewise" if flags & 2 else ["uniform", 1 + (flags >> 2) % 7])
    return {"src": "raw", "raw": stream.hex(), "deflate": bool(flags & 1), "seg": seg, "edits": [], "reactions": []}


def decode_c04(data):
    """flags(1) | frames: each = b0(1) lenspec(1) [payload...]; a tiny grammar so that the
    fuzzer reaches deep states instead of dying in header validation"""
    import struct
    if len(data) < 1:
        return None
    flags = data[0]
    pos = 1
    out = bytearray()
    while pos + 2 <= len(data) and len(out) < 4000:
        b0, spec = data[pos], data[pos + 1]
        pos += 2
        n = spec & 0x1f if not spec & 0x20 else [125, 126, 127, 200, 1000][(spec & 0x1f) % 5]
        form = (spec >> 6) & 3
        body = data[pos:pos + n]
        pos += len(body)
        declared = n if not (flags & 4 and spec == 0xff) else 1 << 63
        if form == 0 and declared < 126:
            head = bytes([b0, declared])
        elif form in (0, 1) and declared < 65536:
            head = bytes([b0, 126]) + struct.pack("!H", declared)
        else:
            head = bytes([b0, 127]) + struct.pack("!Q", declared)
        out += head + body       # a short body leaves the last frame incomplete
    seg = "whole" if not flags & 2 else ["uniform", 1 + (flags >> 3) % 9]
    return {"stream": bytes(out).hex(), "deflate": bool(flags & 1), "seg": seg}


def seeds_c02():
    from props import c02
    out = []
    for name, deflate, data in c02.get_catalogue():
        out.append(bytes([deflate, 0]) + data)
        out.append(bytes([deflate | 2, 0]) + data)
        out.append(bytes([deflate, 2, 0, 130, 0, 133]) + data)
    return out


def seeds_c04():
    return [b"\x00\x81\x05hello", b"\x00\x01\x02he\x80\x03llo", b"\x00\x89\x01p\x82\x02\x00\x01", b"\x00\x88\x02\x03\xe8",
            b"\x01\xc1\x01\x00", b"\x00\x01\x01a\x89\x00\x80\x01b", b"\x00\x81\x22" + b"a" * 2]


def main():
    ap = argparse.ArgumentParser()
    ap.add_argument("target", choices=["c02", "c04"])
    ap.add_argument("--runs", type=int, default=20000)
    ap.add_argument("--seed", type=int, default=1)
    ap.add_argument("--out", required=True)
    ap.add_argument("--empty-corpus", action="store_true")
    args = ap.parse_args()
    os.makedirs(args.out, exist_ok=True)
    corpus = os.path.join(args.out, "corpus")
    os.makedirs(corpus, exist_ok=True)

    import atheris
    boot.init(reexec=False)
    with atheris.instrument_imports(include=["lomond"]):
        import lomond.websocket  # noqa
        import lomond.session    # noqa
        import lomond.persist    # noqa
    import props
    from harness import runner, simnet
    prop = props.load(args.target.upper())
    decode = decode_c02 if args.target == "c02" else decode_c04
    known = set(runner.open_signatures(prop.id))
    stats = {"execs": 0, "nontrivial": set(), "labels": {}}

    if not args.empty_corpus:
        for i, s in enumerate(seeds_c02() if args.target == "c02" else seeds_c04()):
            with open(os.path.join(corpus, "seed%03d" % i), "wb") as fh:
                fh.write(s)

    def write_stats():
        with open(os.path.join(args.out, "stats.json"), "w") as fh:
            json.dump({"execs": stats["execs"], "distinct_nontrivial": len(stats["nontrivial"]),
                       "labels": stats["labels"]}, fh)

    def target(data):
        case = decode(data)
        if case is None:
            return
        simnet.CURRENT = None        # no state leaks between iterations
        res = prop.run_case(case)
        stats["execs"] += 1
        for lab in res.labels:
            if not isinstance(lab, tuple):
                stats["labels"][lab] = stats["labels"].get(lab, 0) + 1
        if res.nontrivial:
            stats["nontrivial"].add(runner.case_hash(case))
        if stats["execs"] % 2000 == 0:
            write_stats()
        if not res.ok and res.signature not in known:
            with open(os.path.join(args.out, "failure.json"), "w") as fh:
                json.dump({"property": prop.id, "signature": res.signature, "detail": res.detail, "case": case}, fh, indent=1)
            write_stats()
            raise RuntimeError("%s: %s" % (res.signature, res.detail))

    import atexit
    argv = [sys.argv[0], "-runs=%d" % args.runs, "-seed=%d" % args.seed, "-max_len=600", "-timeout=120",
            "-artifact_prefix=" + os.path.join(args.out, "crash-"), "-print_final_stats=0", "-verbosity=0", corpus]
    atheris.Setup(argv, target)
    try:
        atheris.Fuzz()
    finally:
        write_stats()


if __name__ == "__main__":
    main()
