"""Deterministic thread scheduler for the race properties (C11, C12).

Real ``threading.Thread`` objects, serialised: exactly one runs at any moment, so an
execution is a pure function of the *schedule*.

Yield points (places where the running thread can be preempted):
  * every source line executed in a file under ``lomond/`` (``sys.settrace``, 'line'
    events) - i.e. source-line granularity;
  * inside ``SimSocket.sendall`` between the two halves of the write (the socket
    write itself is split in two steps);
  * every acquisition attempt of the session's write lock (``SchedLock``).

schedule = {"order": [thread names, priority order],
            "preempt": [[global step, thread name], ...]}   # sorted by step

Between preemptions the current thread keeps running until it finishes or blocks on
the lock; then the first runnable thread in ``order`` continues.  A preemption at
step s to thread t takes effect only if t is runnable and is not the current thread
(otherwise it is *vacuous* and reported as such).
"""
import os
import sys
import threading

from . import simnet


class SchedKilled(simnet.HarnessSignal):
    """Raised inside a worker at teardown to unwind it."""


class Worker(object):
    def __init__(self, name, fn):
        self.name = name
        self.fn = fn
        self.go = threading.Semaphore(0)
        self.state = "new"        # new | ready | running | blocked | parked | done
        self.blocked_on = None
        self.error = None
        self.result = None
        self.thread = None
        self.steps = 0
        self.where = None


class SchedLock(object):
    """Scheduler-aware replacement for every ``threading.Lock`` / ``RLock`` that lomond
    creates (the session's write lock and any other): a thread that finds it taken is
    marked blocked and the controller runs another one, so a paused lock holder can never
    dead-lock the harness."""

    def __init__(self, sched, reentrant=False):
        self.sched = sched
        self.owner = None
        self.count = 0
        self.reentrant = reentrant

    def acquire(self, blocking=True, timeout=-1):
        sched = self.sched
        w = sched.current_worker() if sched is not None else None
        if w is None:
            # not under the scheduler (set-up / teardown on the main thread)
            self.owner = "main"
            self.count += 1
            return True
        sched.yield_point("lock.acquire")
        if self.reentrant and self.owner == w.name:
            self.count += 1
            return True
        timed = timeout is not None and timeout >= 0
        while self.owner is not None:
            if not blocking:
                return False
            w.state = "blocked"
            w.blocked_on = self
            w.timed_out = False
            w.block_timed = timed
            sched.switch_out(w)
            if w.timed_out:
                # nothing else could run any more: the timeout of a timed acquire elapses
                return False
        self.owner = w.name
        self.count = 1
        return True

    def release(self):
        self.count -= 1
        if self.count <= 0:
            self.owner = None
            self.count = 0

    def locked(self):
        return self.owner is not None

    def __enter__(self):
        self.acquire()
        return self

    def __exit__(self, *a):
        self.release()


class _CondToken(object):
    """What a thread waiting on a SchedCondition is blocked on (``locked()`` until it is notified)."""

    def __init__(self):
        self.woken = False
        self.notified = False

    def locked(self):
        return not self.woken


class SchedCondition(object):
    """Scheduler-aware ``threading.Condition``: a waiting thread is marked blocked (the controller runs another one);
    ``notify`` makes it runnable again; a TIMED wait that nobody notifies times out once nothing else can run."""

    def __init__(self, sched, lock=None):
        self.sched = sched
        self._lock = lock if isinstance(lock, SchedLock) else SchedLock(sched, reentrant=True)
        self._waiters = []
        self.acquire = self._lock.acquire
        self.release = self._lock.release

    def __enter__(self):
        return self._lock.__enter__()

    def __exit__(self, *a):
        return self._lock.__exit__(*a)

    def wait(self, timeout=None):
        sched = self.sched
        w = sched.current_worker() if sched is not None else None
        if w is None:
            return True
        sched.yield_point("cond.wait")
        token = _CondToken()
        self._waiters.append(token)
        owner, count = self._lock.owner, self._lock.count
        self._lock.owner, self._lock.count = None, 0
        w.state = "blocked"
        w.blocked_on = token
        w.timed_out = False
        w.block_timed = timeout is not None
        sched.switch_out(w)
        if token in self._waiters:
            self._waiters.remove(token)
        # take the lock again (others may hold it now)
        while self._lock.owner is not None:
            w.state = "blocked"
            w.blocked_on = self._lock
            w.block_timed = False
            sched.switch_out(w)
        self._lock.owner, self._lock.count = w.name, max(1, count)
        return token.notified

    def wait_for(self, predicate, timeout=None):
        result = predicate()
        while not result:
            if not self.wait(timeout) and timeout is not None:
                return predicate()
            result = predicate()
        return result

    def notify(self, n=1):
        if self.sched is not None and self.sched.current_worker() is not None:
            self.sched.yield_point("cond.notify")
        for token in self._waiters[:n]:
            token.woken = True
            token.notified = True
        del self._waiters[:n]

    def notify_all(self):
        self.notify(len(self._waiters))

    notifyAll = notify_all


ACTIVE = None    # the scheduler under which lomond objects are currently being created


class ThreadingShim(object):
    """Stands in for the ``threading`` module inside lomond's modules."""

    def __init__(self, real):
        self._real = real

    def Lock(self):
        if ACTIVE is not None:
            return SchedLock(ACTIVE)
        return self._real.Lock()

    def RLock(self):
        if ACTIVE is not None:
            return SchedLock(ACTIVE, reentrant=True)
        return self._real.RLock()

    def Condition(self, lock=None):
        if ACTIVE is not None:
            return SchedCondition(ACTIVE, lock)
        return self._real.Condition(lock)

    def __getattr__(self, name):
        return getattr(self._real, name)


def install_threading_shim():
    import lomond
    import pkgutil
    import importlib
    for info in pkgutil.iter_modules(lomond.__path__):
        try:
            mod = importlib.import_module("lomond." + info.name)
        except Exception:
            continue
        t = getattr(mod, "threading", None)
        if t is not None and not isinstance(t, ThreadingShim):
            mod.threading = ThreadingShim(t)


class Scheduler(object):
    MAX_STEPS = 20000

    def __init__(self, schedule, trace_root):
        self.order = list(schedule.get("order", []))
        # who continues when the running thread blocks or finishes: the first runnable thread in ``order`` (default), or -
        # "lifo" - the most recently PREEMPTED thread that can run (threads resume in the reverse order of their preemption)
        self.resume = schedule.get("resume")
        self.preempted = []
        self.preempt = sorted([list(p) for p in schedule.get("preempt", [])])
        self.workers = {}
        self.ctl = threading.Semaphore(0)
        self.step = 0
        self.current = None
        self.trace_root = os.path.realpath(trace_root) + os.sep
        self.killing = False
        self.taken = []            # preemptions that took effect: (step, from, to, where)
        self.vacuous = []
        self.by_thread = {}        # thread ident -> Worker
        self.log = []              # (step, worker, where) - compact execution trace
        self.keep_log = False
        self.aborted = None
        self._files = {}
        self.pi = 0

    # ---- worker side -------------------------------------------------------------
    def current_worker(self):
        return self.by_thread.get(threading.get_ident())

    def _trace_global(self, frame, event, arg):
        fn = frame.f_code.co_filename
        hit = self._files.get(fn)
        if hit is None:
            hit = os.path.realpath(fn).startswith(self.trace_root)
            self._files[fn] = hit
        if hit:
            return self._trace_local
        return None

    def _trace_local(self, frame, event, arg):
        if event == "line":
            self.yield_point((frame.f_code.co_filename, frame.f_lineno))
        return self._trace_local

    def yield_point(self, where):
        w = self.current_worker()
        if w is None:
            return
        if self.killing:
            raise SchedKilled()
        w.where = where
        pre = self.preempt
        if self.step < self.MAX_STEPS and not (self.pi < len(pre) and pre[self.pi][0] <= self.step):
            # no scheduling decision is due at this step: the current thread simply keeps
            # running (same semantics as a round trip through the controller, without
            # the two context switches)
            self.step += 1
            w.steps += 1
            if self.keep_log:
                self.log.append((self.step, w.name, where))
            return
        w.state = "ready"
        self.switch_out(w)

    def switch_out(self, w):
        """Hand control to the controller and wait until scheduled again."""
        self.ctl.release()
        w.go.acquire()
        if self.killing:
            raise SchedKilled()
        w.state = "running"

    def park(self):
        """The calling worker has nothing more to do but must stay alive (e.g. the
        event loop waiting for traffic): it never becomes runnable again."""
        w = self.current_worker()
        w.state = "parked"
        self.switch_out(w)

    def _run_worker(self, w):
        self.by_thread[threading.get_ident()] = w
        w.go.acquire()
        if self.killing:
            w.state = "done"
            self.ctl.release()
            return
        w.state = "running"
        sys.settrace(self._trace_global)
        try:
            w.result = w.fn()
        except SchedKilled:
            pass
        except simnet.HarnessSignal as sig:
            w.error = ("signal", repr(sig))
        except BaseException as error:   # noqa - recorded, judged by the oracle
            w.error = ("exception", error)
        finally:
            sys.settrace(None)
            w.state = "done"
            self.ctl.release()

    # ---- controller side ------------------------------------------------------------
    def spawn(self, name, fn):
        w = Worker(name, fn)
        self.workers[name] = w
        if name not in self.order:
            self.order.append(name)
        w.thread = threading.Thread(target=self._run_worker, args=(w,), name="sched-" + name, daemon=True)
        w.thread.start()
        w.state = "ready"
        return w

    def runnable(self, w):
        if w.state == "ready":
            return True
        if w.state == "blocked":
            return not w.blocked_on.locked()
        return False

    def pick(self):
        if self.resume == "lifo":
            for w in reversed(self.preempted):
                if self.runnable(w):
                    self.preempted.remove(w)
                    return w
        for name in self.order:
            w = self.workers.get(name)
            if w is not None and self.runnable(w):
                return w
        # nothing can run: a TIMED wait / acquire now times out (virtual time passes only when all else is still)
        for name in self.order:
            w = self.workers.get(name)
            if w is not None and w.state == "blocked" and getattr(w, "block_timed", False):
                w.timed_out = True
                w.block_timed = False
                w.state = "ready"
                tok = w.blocked_on
                if isinstance(tok, _CondToken):
                    tok.woken = True
                return w
        return None

    def run(self):
        """Controller loop; returns when no worker is runnable."""
        cur = None
        while True:
            if self.step >= self.MAX_STEPS:
                self.aborted = "more than %d scheduling steps" % self.MAX_STEPS
                break
            # apply a preemption scheduled for this step
            while self.pi < len(self.preempt) and self.preempt[self.pi][0] < self.step:
                self.vacuous.append(self.preempt[self.pi])
                self.pi += 1
            if self.pi < len(self.preempt) and self.preempt[self.pi][0] == self.step:
                s, target = self.preempt[self.pi]
                self.pi += 1
                t = self.workers.get(target)
                if t is not None and t is not cur and self.runnable(t) and cur is not None and self.runnable(cur):
                    self.taken.append((self.step, cur.name, t.name, cur.where))
                    self.preempted.append(cur)
                    cur = t
                else:
                    self.vacuous.append([s, target])
            if cur is None or not self.runnable(cur):
                cur = self.pick()
                if cur is None:
                    break
            self.current = cur
            self.step += 1
            cur.steps += 1
            if self.keep_log:
                self.log.append((self.step, cur.name, cur.where))
            cur.go.release()
            self.ctl.acquire()
        for p in self.preempt[self.pi:]:
            self.vacuous.append(p)
        self.current = None

    def teardown(self):
        """Unwind every worker that is still alive (parked, blocked, never started)."""
        self.killing = True
        for w in self.workers.values():
            if w.state != "done":
                w.go.release()
        for w in self.workers.values():
            w.thread.join(10)
        alive = [w.name for w in self.workers.values() if w.thread.is_alive()]
        return alive
