"""Deterministic thread scheduler for the race properties (C11, C12).

Real ``threading.Thread`` objects, serialised: exactly one runs at any moment, so an
execution is a pure function of the *schedule*.

Yield points (places where the running thread can be preempted):
  * every source line executed in a file under ``lomond/`` (``sys.settrace``, 'line'
    events) - i.e. source-line granularity;
  * inside ``SimSocket.sendall`` between the two halves of the write (the socket
    write itself is split in two steps);
  * every acquisition attempt of the session's write lock (``SchedLock``).

schedule = {"order": [thread names, priority order],
            "preempt": [[global step, thread name], ...]}   # sorted by step

Between preemptions the current thread keeps running until it finishes or blocks on
the lock; then the first runnable thread in ``order`` continues.  A preemption at
step s to thread t takes effect only if t is runnable and is not the current thread
(otherwise it is *vacuous* and reported as such).
"""
import os
import sys
import threading

from . import simnet


class SchedKilled(simnet.HarnessSignal):
    """Raised inside a worker at teardown to unwind it."""


class Worker(object):
    def __init__(self, name, fn):
        self.name = name
        self.fn = fn
        self.go = threading.Semaphore(0)
        self.state = "new"        # new | ready | running | blocked | parked | done
        self.blocked_on = None
        self.error = None
        self.result = None
        self.thread = None
        self.steps = 0
        self.where = None


class SchedLock(object):
    """Scheduler-aware replacement for every ``threading.Lock`` / ``RLock`` that lomond
    creates (the session's write lock and any other): a thread that finds it taken is
    marked blocked and the controller runs another one, so a paused lock holder can never
    dead-lock the harness."""

    def __init__(self, sched, reentrant=False):
        self.sched = sched
        self.owner = None
        self.count = 0
        self.reentrant = reentrant

    def acquire(self, blocking=True, timeout=-1):
        sched = self.sched
        w = sched.current_worker() if sched is not None else None
        if w is None:
            # not under the scheduler (set-up / teardown on the main thread)
            self.owner = "main"
            self.count += 1
            return True
        sched.yield_point("lock.acquire")
        if self.reentrant and self.owner == w.name:
            self.count += 1
            return True
        while self.owner is not None:
            if not blocking:
                return False
            w.state = "blocked"
            w.blocked_on = self
            sched.switch_out(w)
        self.owner = w.name
        self.count = 1
        return True

    def release(self):
        self.count -= 1
        if self.count <= 0:
            self.owner = None
            self.count = 0

    def locked(self):
        return self.owner is not None

    def __enter__(self):
        self.acquire()
        return self

    def __exit__(self, *a):
        self.release()


ACTIVE = None    # the scheduler under which lomond objects are currently being created


class ThreadingShim(object):
    """Stands in for the ``threading`` module inside lomond's modules."""

    def __init__(self, real):
        self._real = real

    def Lock(self):
        if ACTIVE is not None:
            return SchedLock(ACTIVE)
        return self._real.Lock()

    def RLock(self):
        if ACTIVE is not None:
            return SchedLock(ACTIVE, reentrant=True)
        return self._real.RLock()

    def __getattr__(self, name):
        return getattr(self._real, name)


def install_threading_shim():
    import lomond
    import pkgutil
    import importlib
    for info in pkgutil.iter_modules(lomond.__path__):
        try:
            mod = importlib.import_module("lomond." + info.name)
        except Exception:
            continue
        t = getattr(mod, "threading", None)
        if t is not None and not isinstance(t, ThreadingShim):
            mod.threading = ThreadingShim(t)


class Scheduler(object):
    MAX_STEPS = 20000

    def __init__(self, schedule, trace_root):
        self.order = list(schedule.get("order", []))
        self.preempt = sorted([list(p) for p in schedule.get("preempt", [])])
        self.workers = {}
        self.ctl = threading.Semaphore(0)
        self.step = 0
        self.current = None
        self.trace_root = os.path.realpath(trace_root) + os.sep
        self.killing = False
        self.taken = []            # preemptions that took effect: (step, from, to, where)
        self.vacuous = []
        self.by_thread = {}        # thread ident -> Worker
        self.log = []              # (step, worker, where) - compact execution trace
        self.keep_log = False
        self.aborted = None
        self._files = {}
        self.pi = 0

    # ---- worker side -------------------------------------------------------------
    def current_worker(self):
        return self.by_thread.get(threading.get_ident())

    def _trace_global(self, frame, event, arg):
        fn = frame.f_code.co_filename
        hit = self._files.get(fn)
        if hit is None:
            hit = os.path.realpath(fn).startswith(self.trace_root)
            self._files[fn] = hit
        if hit:
            return self._trace_local
        return None

    def _trace_local(self, frame, event, arg):
        if event == "line":
            self.yield_point((frame.f_code.co_filename, frame.f_lineno))
        return self._trace_local

    def yield_point(self, where):
        w = self.current_worker()
        if w is None:
            return
        if self.killing:
            raise SchedKilled()
        w.where = where
        pre = self.preempt
        if self.step < self.MAX_STEPS and not (self.pi < len(pre) and pre[self.pi][0] <= self.step):
            # no scheduling decision is due at this step: the current thread simply keeps
            # running (same semantics as a round trip through the controller, without
            # the two context switches)
            self.step += 1
            w.steps += 1
            if self.keep_log:
                self.log.append((self.step, w.name, where))
            return
        w.state = "ready"
        self.switch_out(w)

    def switch_out(self, w):
        """Hand control to the controller and wait until scheduled again."""
        self.ctl.release()
        w.go.acquire()
        if self.killing:
            raise SchedKilled()
        w.state = "running"

    def park(self):
        """The calling worker has nothing more to do but must stay alive (e.g. the
        event loop waiting for traffic): it never becomes runnable again."""
        w = self.current_worker()
        w.state = "parked"
        self.switch_out(w)

    def _run_worker(self, w):
        self.by_thread[threading.get_ident()] = w
        w.go.acquire()
        if self.killing:
            w.state = "done"
            self.ctl.release()
            return
        w.state = "running"
        sys.settrace(self._trace_global)
        try:
            w.result = w.fn()
        except SchedKilled:
            pass
        except simnet.HarnessSignal as sig:
            w.error = ("signal", repr(sig))
        except BaseException as error:   # noqa - recorded, judged by the oracle
            w.error = ("exception", error)
        finally:
            sys.settrace(None)
            w.state = "done"
            self.ctl.release()

    # ---- controller side ------------------------------------------------------------
    def spawn(self, name, fn):
        w = Worker(name, fn)
        self.workers[name] = w
        if name not in self.order:
            self.order.append(name)
        w.thread = threading.Thread(target=self._run_worker, args=(w,), name="sched-" + name, daemon=True)
        w.thread.start()
        w.state = "ready"
        return w

    def runnable(self, w):
        if w.state == "ready":
            return True
        if w.state == "blocked":
            return not w.blocked_on.locked()
        return False

    def pick(self):
        for name in self.order:
            w = self.workers.get(name)
            if w is not None and self.runnable(w):
                return w
        return None

    def run(self):
        """Controller loop; returns when no worker is runnable."""
        cur = None
        while True:
            if self.step >= self.MAX_STEPS:
                self.aborted = "more than %d scheduling steps" % self.MAX_STEPS
                break
            # apply a preemption scheduled for this step
            while self.pi < len(self.preempt) and self.preempt[self.pi][0] < self.step:
                self.vacuous.append(self.preempt[self.pi])
                self.pi += 1
            if self.pi < len(self.preempt) and self.preempt[self.pi][0] == self.step:
                s, target = self.preempt[self.pi]
                self.pi += 1
                t = self.workers.get(target)
                if t is not None and t is not cur and self.runnable(t) and cur is not None and self.runnable(cur):
                    self.taken.append((self.step, cur.name, t.name, cur.where))
                    cur = t
                else:
                    self.vacuous.append([s, target])
            if cur is None or not self.runnable(cur):
                cur = self.pick()
                if cur is None:
                    break
            self.current = cur
            self.step += 1
            cur.steps += 1
            if self.keep_log:
                self.log.append((self.step, cur.name, cur.where))
            cur.go.release()
            self.ctl.acquire()
        for p in self.preempt[self.pi:]:
            self.vacuous.append(p)
        self.current = None

    def teardown(self):
        """Unwind every worker that is still alive (parked, blocked, never started)."""
        self.killing = True
        for w in self.workers.values():
            if w.state != "done":
                w.go.release()
        for w in self.workers.values():
            w.thread.join(10)
        alive = [w.name for w in self.workers.values() if w.thread.is_alive()]
        return alive
