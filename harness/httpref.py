"""Independent HTTP/1.1 pieces: strict request parser, reply generator and the
reference *interpretation* of a generated reply (RFC 7230 section 3.2).

Nothing here imports lomond.
"""
import base64
import hashlib
import re

GUID = b"258EAFA5-E914-47DA-95CA-C5AB0DC85B11"
TOKEN = re.compile(rb"^[!#$%&'*+\-.^_`|~0-9A-Za-z]+$")


class HttpError(Exception):
    pass


def accept_for(key_b64):
    """RFC 6455 section 4.2.2: base64(sha1(key + GUID))."""
    return base64.b64encode(hashlib.sha1(key_b64 + GUID).digest()).decode("ascii")


# ---------------------------------------------------------------------------
# strict request parser

class Request(object):
    def __init__(self):
        self.method = None
        self.target = None
        self.version = None
        self.headers = []     # [(name bytes, value bytes)] in order, value OWS-trimmed

    def get_all(self, name):
        name = name.lower()
        return [v for k, v in self.headers if k.lower() == name]

    def get(self, name):
        vals = self.get_all(name)
        return vals[0] if vals else None


def parse_request(block):
    """Parse exactly one request header block (ending in CRLFCRLF, no body).
    Raises HttpError describing the first deviation from RFC 7230."""
    if not block.endswith(b"\r\n\r\n"):
        raise HttpError("request does not end with CRLFCRLF")
    body = block[:-4]
    if b"\r\n\r\n" in body:
        raise HttpError("empty line inside the header block")
    lines = body.split(b"\r\n")
    for ln in lines:
        if b"\r" in ln or b"\n" in ln:
            raise HttpError("bare CR or LF in %r" % ln)
    rl = lines[0].split(b" ")
    if len(rl) != 3:
        raise HttpError("request line %r is not 'METHOD SP target SP version'" % lines[0])
    req = Request()
    req.method, req.target, req.version = rl
    if not TOKEN.match(req.method):
        raise HttpError("bad method %r" % req.method)
    if not req.target or any(c <= 32 or c == 127 for c in req.target):
        raise HttpError("bad request-target %r" % req.target)
    if not re.match(rb"^HTTP/\d\.\d$", req.version):
        raise HttpError("bad version %r" % req.version)
    for ln in lines[1:]:
        if ln[:1] in (b" ", b"\t"):
            raise HttpError("obs-fold in request: %r" % ln)
        name, colon, value = ln.partition(b":")
        if not colon:
            raise HttpError("header line without colon: %r" % ln)
        if not TOKEN.match(name):
            raise HttpError("header name %r is not a token" % name)
        value = value.strip(b" \t")
        if any((c < 32 and c != 9) or c == 127 for c in value):
            raise HttpError("control character in header value %r" % value)
        req.headers.append((name, value))
    return req


# ---------------------------------------------------------------------------
# reply generator

def _key_of(request_bytes):
    if not request_bytes:
        return b""
    for ln in request_bytes.split(b"\r\n")[1:]:
        name, colon, value = ln.partition(b":")
        if colon and name.strip().lower() == b"sec-websocket-key":
            return value.strip()
    return b""


def accept_variant(kind, key_b64):
    """All the generated Sec-WebSocket-Accept classes (as text)."""
    good = accept_for(key_b64)
    if kind == "correct":
        return good
    if kind == "other_key":
        other = base64.b64encode(bytes(b ^ 0x5a for b in base64.b64decode(key_b64 or b"AAAA")))
        return accept_for(other)
    if kind == "no_guid":
        return base64.b64encode(hashlib.sha1(key_b64).digest()).decode("ascii")
    if kind == "swapcase":
        return good.swapcase()
    if kind == "lower":
        return good.lower()
    if kind == "upper":
        return good.upper()
    if kind == "one_case_flip":
        for i, ch in enumerate(good):
            if ch.isalpha():
                return good[:i] + ch.swapcase() + good[i + 1:]
        return good
    if kind == "one_char":
        ch = "A" if good[3] != "A" else "B"
        return good[:3] + ch + good[4:]
    if kind.startswith("trunc:"):
        return good[:int(kind[6:])]
    if kind == "nopad":
        return good.rstrip("=")
    if kind == "extra":
        return good + "A"
    if kind == "inner_space":
        return good[:10] + " " + good[10:]
    if kind == "hex":
        return hashlib.sha1(key_b64 + GUID).hexdigest()
    if kind == "key_echo":
        return key_b64.decode("ascii", "replace")
    if kind == "empty":
        return ""
    if kind == "braced":
        return "{" + good + "}"
    if kind == "format_field":
        return "{0}{}%s"
    if kind.startswith("suffix:"):      # the digest followed / preceded by the given bytes (hex), e.g. UTF-8 of U+00A0
        return good + bytes.fromhex(kind[7:]).decode("latin-1")
    if kind.startswith("prefix:"):
        return bytes.fromhex(kind[7:]).decode("latin-1") + good
    if kind.startswith("lit:"):
        return kind[4:]
    raise HttpError("unknown accept kind %r" % kind)


def canonical_spec(extensions=None, protocol=None):
    headers = [["Upgrade", "websocket"], ["Connection", "Upgrade"],
               ["Sec-WebSocket-Accept", "{accept:correct}"]]
    if protocol:
        headers.append(["Sec-WebSocket-Protocol", protocol])
    for e in extensions or []:
        headers.append(["Sec-WebSocket-Extensions", e])
    return {"status": 101, "reason": "Switching Protocols", "headers": headers}


_PLACE = re.compile(r"\{accept:([^}]*)\}")


def build_reply(spec, request_bytes):
    """Materialise a reply spec into bytes.

    spec = {"version": "HTTP/1.1", "status": 101, "reason": "...",
            "headers": [[name, value, opts?], ...],   value may hold {accept:<kind>}
            "terminate": True, "pad_to": n (exact size of the header block incl. CRLFCRLF),
            "raw_prefix": hex (garbage instead of a status line)}
    opts = {"pre": " ", "post": "", "folds": [positions]}  - OWS before/after the
    value and obs-fold (CRLF SP) inserted *at existing spaces* of the value.
    """
    if spec is None:
        spec = canonical_spec()
    if "raw" in spec:
        return bytes.fromhex(spec["raw"])
    key = _key_of(request_bytes)
    version = spec.get("version", "HTTP/1.1")
    status = spec.get("status", 101)
    reason = spec.get("reason", "Switching Protocols")
    if status is None:
        line0 = version
    else:
        # "sep": what separates version, status and reason (a single SP unless the status line is malformed on purpose)
        line0 = "%s%s%s" % (version, spec.get("sep", " "), status)
        if reason is not None:
            line0 += spec.get("sep2", " ") + reason
    lines = [line0.encode("latin-1")]
    for h in spec.get("headers", canonical_spec()["headers"]):
        name, value = h[0], h[1]
        opts = h[2] if len(h) > 2 else {}
        value = _PLACE.sub(lambda m: accept_variant(m.group(1), key), value)
        folds = sorted(set(opts.get("folds", [])), reverse=True)
        for pos in folds:
            # fold only where a space already separates tokens: obs-fold == SP
            idxs = [i for i, ch in enumerate(value) if ch == " "]
            if idxs:
                i = idxs[pos % len(idxs)]
                value = value[:i] + "\r\n" + opts.get("fold_ws", " ") + value[i + 1:]
        line = name + ":" + opts.get("pre", " ") + value + opts.get("post", "")
        lines.append(line.encode("latin-1"))
    block = b"\r\n".join(lines)
    pad_to = spec.get("pad_to")
    terminate = spec.get("terminate", True)
    tail = b"\r\n\r\n" if terminate else b""
    if pad_to is not None:
        # add one filler header so that the whole block is exactly pad_to bytes
        overhead = len(block) + len(b"\r\nX-Pad: ") + len(tail)
        fill = pad_to - overhead
        if fill >= 0:
            block += b"\r\nX-Pad: " + b"p" * fill
    return block + tail


def interpret_reply(spec, key_b64):
    """Reference reading of a generated reply: status code and effective header
    values (names case-insensitive, OWS trimmed, obs-fold == one SP, repeated
    fields joined with ','), computed from the *spec* rather than by parsing."""
    if "raw" in spec:
        return None, {}
    eff = {}
    for h in spec.get("headers", canonical_spec()["headers"]):
        name, value = h[0], h[1]
        value = _PLACE.sub(lambda m: accept_variant(m.group(1), key_b64), value)
        value = value.strip(" \t")
        lname = name.lower()
        if lname in eff:
            eff[lname] = eff[lname] + "," + value
        else:
            eff[lname] = value
    return spec.get("status", 101), eff


def selftest():
    # RFC 6455 section 1.3 example
    assert accept_for(b"dGhlIHNhbXBsZSBub25jZQ==") == "s3pPLMBiTxaQ9kYGzzhZRbK+xOo="
    req = parse_request(b"GET /chat?x=1 HTTP/1.1\r\nHost: a:80\r\nUpgrade:  websocket \r\n\r\n")
    assert req.method == b"GET" and req.target == b"/chat?x=1" and req.get(b"upgrade") == b"websocket"
    for bad in (b"GET / HTTP/1.1\r\nHost a\r\n\r\n", b"GET  / HTTP/1.1\r\n\r\n",
                b"GET / HTTP/1.1\nHost: a\r\n\r\n", b"GET / HTTP/1.1\r\nA: b\r\n c\r\n\r\n",
                b"GET / HTTP/1.1\r\nA: b\r\n\r\nX", b"GET / HTTP/1.1\r\nA : b\r\n\r\n"):
        try:
            parse_request(bad)
        except HttpError:
            continue
        raise AssertionError("accepted %r" % bad)
    rq = b"GET / HTTP/1.1\r\nSec-WebSocket-Key: dGhlIHNhbXBsZSBub25jZQ==\r\n\r\n"
    rep = build_reply(None, rq)
    assert rep.startswith(b"HTTP/1.1 101 Switching Protocols\r\n") and rep.endswith(b"\r\n\r\n")
    assert b"Sec-WebSocket-Accept: s3pPLMBiTxaQ9kYGzzhZRbK+xOo=\r\n" in rep
    spec = canonical_spec()
    spec["pad_to"] = 16384
    assert len(build_reply(spec, rq)) == 16384
