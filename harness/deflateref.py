"""An RFC 7692 (permessage-deflate) *peer* that honours the negotiated parameters.

Only the extension logic lives here (tail strip/append, context reset, parameter
mapping, window enforcement); DEFLATE itself is zlib on both sides, which is what
lomond delegates to as well.

* ``Peer.compress`` - server -> client direction, LZ77 window 2**server_max_window_bits
  (zlib cannot deflate with an 8-bit window; its 9-bit window never emits a distance
  above 250, hence is a legal 8-bit peer).
* ``Peer.inflate`` - client -> server direction, window 2**client_max_window_bits,
  driven in one-byte output steps so that zlib's window is the only history available
  (a one-shot ``decompress`` would not notice distances beyond the window).
"""
import zlib

TAIL = b"\x00\x00\xff\xff"


class InflateError(Exception):
    pass


class Peer(object):
    def __init__(self, server_bits=15, client_bits=15, server_nct=False, client_nct=False):
        self.server_bits = server_bits
        self.client_bits = client_bits
        self.server_nct = server_nct
        self.client_nct = client_nct
        self._c = None
        self._d = None

    # ---- server -> client ----------------------------------------------------
    def _compressor(self, level):
        return zlib.compressobj(level, zlib.DEFLATED, -max(9, self.server_bits))

    def compress(self, payload, level=-1, mid_flush=(), full_flush=False, final=False):
        """Deflate one message; ``mid_flush`` = payload offsets at which a sync flush
        is emitted in the middle of the message (legal: DEFLATE blocks may be flushed
        anywhere).  Returns the extension payload (final tail removed).

        ``final`` = the message ends with a DEFLATE block that has BFINAL set, followed by
        the 0x00 octet of RFC 7692 7.2.3.4; the DEFLATE stream has ended, so the next
        message starts a new one (no reference to earlier messages is possible)."""
        if self._c is None or self.server_nct:
            self._c = self._compressor(level)
        out = []
        last = 0
        for off in sorted(set(o for o in mid_flush if 0 < o < len(payload))):
            out.append(self._c.compress(payload[last:off]))
            out.append(self._c.flush(zlib.Z_FULL_FLUSH if full_flush else zlib.Z_SYNC_FLUSH))
            last = off
        out.append(self._c.compress(payload[last:]))
        if final:
            out.append(self._c.flush(zlib.Z_FINISH))
            self._c = None
            return b"".join(out) + b"\x00"
        out.append(self._c.flush(zlib.Z_SYNC_FLUSH))
        data = b"".join(out)
        assert data.endswith(TAIL)
        if self.server_nct:
            self._c = None
        return data[:-4]

    # ---- client -> server ----------------------------------------------------
    def inflate(self, data):
        """Inflate one client message in 1-byte output steps (window-enforcing)."""
        if self._d is None or self.client_nct:
            self._d = zlib.decompressobj(-self.client_bits)
        d = self._d
        out = bytearray()
        buf = data + TAIL
        try:
            while True:
                piece = d.decompress(buf, 1)
                out += piece
                buf = d.unconsumed_tail
                if not piece and not buf:
                    break
        except zlib.error as error:
            self._d = None
            raise InflateError(str(error))
        if d.eof:
            # BFINAL block: RFC 7692 7.2.3.6 - reset for the next message
            self._d = None
        if self.client_nct:
            self._d = None
        return bytes(out)


def extension_header(cfg, sp=None):
    """Spell the negotiated parameters as a Sec-WebSocket-Extensions value."""
    sp = sp or {}
    params = []
    q = '"' if sp.get("quote") else ""
    if not (cfg["sb"] == 15 and sp.get("omit_default")):
        params.append("server_max_window_bits%s=%s%s%s%s" % (sp.get("eq_l", ""), sp.get("eq_r", ""), q, cfg["sb"], q))
    if not (cfg["cb"] == 15 and sp.get("omit_default")):
        params.append("client_max_window_bits%s=%s%s%s%s" % (sp.get("eq_l", ""), sp.get("eq_r", ""), q, cfg["cb"], q))
    if cfg["snct"]:
        params.append("server_no_context_takeover")
    if cfg["cnct"]:
        params.append("client_no_context_takeover")
    order = sp.get("order", 0)
    if params:
        k = order % len(params)
        params = params[k:] + params[:k]
        if (order // 7) % 2:
            params.reverse()
    sep = sp.get("semi_l", "") + ";" + sp.get("semi_r", " ")
    value = sep.join(["permessage-deflate"] + params)
    # the header is a comma-separated LIST: empty list elements are legal and mean nothing (RFC 7230 section 7)
    lst = sp.get("list", 0) % 5
    return [value, value + ",", ", " + value, value + " , ", "," + value + ",,"][lst]


DEFAULT_CFG = {"sb": 15, "cb": 15, "snct": False, "cnct": False}


def cfg_of(deflate):
    """Normalise a case's ``deflate`` value (False/None/0, True/1, or a configuration dict
    {"sb","cb","snct","cnct"[,"spelling"]}) to a configuration dict, or None if not negotiated."""
    if not deflate:
        return None
    if isinstance(deflate, dict):
        cfg = dict(DEFAULT_CFG)
        cfg.update(deflate)
        return cfg
    return dict(DEFAULT_CFG)


def peer_of(deflate):
    cfg = cfg_of(deflate) or DEFAULT_CFG
    return Peer(cfg["sb"], cfg["cb"], cfg["snct"], cfg["cnct"])


def header_of(deflate):
    """The Sec-WebSocket-Extensions value a server sends for this configuration (the plain token for
    the default configuration without a spelling)."""
    cfg = cfg_of(deflate)
    if cfg is None:
        return None
    if cfg == DEFAULT_CFG:
        return "permessage-deflate"
    return extension_header(cfg, cfg.get("spelling"))


def stored_payload(n):
    """A valid permessage-deflate payload of exactly n bytes (n == 1 or n >= 5) that
    inflates to n-5 (resp. 0) bytes of 'a', made of one stored block."""
    if n == 1:
        return b"\x00", b""
    if n < 5:
        raise ValueError(n)
    k = n - 5
    body = b"a" * k
    return b"\x00" + k.to_bytes(2, "little") + (k ^ 0xFFFF).to_bytes(2, "little") + body, body


def selftest():
    p = Peer(9, 9)
    msgs = [b"hello " * 50, b"", b"x", bytes(range(256)) * 20, b"hello " * 50]
    for m in msgs:
        wire_bytes = p.compress(m)
        d = zlib.decompressobj(-9)
    # round trip through a mirrored pair, all windows
    for bits in range(8, 16):
        for nct in (False, True):
            srv = Peer(bits, bits, nct, nct)
            inf = zlib.decompressobj(-bits)
            for m in msgs:
                data = srv.compress(m)
                if nct:
                    inf = zlib.decompressobj(-bits)
                assert inf.decompress(data + TAIL) == m
            # client direction: a compressor limited to the window must inflate
            comp = zlib.compressobj(-1, zlib.DEFLATED, -max(9, bits))
            for m in msgs:
                if nct:
                    comp = zlib.compressobj(-1, zlib.DEFLATED, -max(9, bits))
                data = (comp.compress(m) + comp.flush(zlib.Z_SYNC_FLUSH))[:-4]
                assert srv.inflate(data) == m
    # window enforcement: 15-bit compressor vs 9-bit stepped inflater must fail on far matches
    import random
    rnd = random.Random(5)
    block = rnd.randbytes(3000)
    m = block + rnd.randbytes(20000) + block
    comp = zlib.compressobj(-1, zlib.DEFLATED, -15)
    data = (comp.compress(m) + comp.flush(zlib.Z_SYNC_FLUSH))[:-4]
    try:
        Peer(15, 9).inflate(data)
    except InflateError:
        pass
    else:
        raise AssertionError("stepped inflater did not enforce the window")
    for n in (1, 5, 6, 100, 125):
        pl, body = stored_payload(n)
        assert len(pl) == n and zlib.decompressobj(-15).decompress(pl + TAIL) == body
