"""C18 real-socket runs: loopback TCP and TLS echo-style servers on threads, the real
platform selectors, bursts much larger than the receive buffer, poll = 60 s.

Run as a separate process (no simulated transport installed):

    python harness/realnet.py            -> prints one JSON document

Verdict is LOGICAL, not temporal.  The server withholds further traffic until the
client has acknowledged a whole burst, so a client that leaves available bytes unread
can only make progress after its 60 s poll timeout.  A watchdog samples every 100 ms
and declares a stall only if, for three consecutive samples, the client thread sits in
the selector, its recv count has not moved, and unread bytes exist (FIONREAD > 0 on
the descriptor or SSLSocket.pending() > 0).  Running out of the overall time budget
without that condition is reported as "inconclusive", never as a violation.
"""
import array
import base64
import fcntl
import hashlib
import json
import os
import socket
import ssl
import struct
import sys
import termios
import threading
import time

HERE = os.path.dirname(os.path.abspath(__file__))
REPO = os.path.abspath(os.environ.get("VERIF_REPO", "/repo"))
sys.path.insert(0, REPO)

GUID = b"258EAFA5-E914-47DA-95CA-C5AB0DC85B11"
BUDGET = float(os.environ.get("VERIF_REALNET_BUDGET", "25"))


def frame(opcode, payload):
    n = len(payload)
    if n < 126:
        head = bytes([0x80 | opcode, n])
    elif n < 65536:
        head = bytes([0x80 | opcode, 126]) + struct.pack("!H", n)
    else:
        head = bytes([0x80 | opcode, 127]) + struct.pack("!Q", n)
    return head + payload


def read_client_frame(conn):
    def need(n):
        buf = b""
        while len(buf) < n:
            chunk = conn.recv(n - len(buf))
            if not chunk:
                raise EOFError
            buf += chunk
        return buf
    b0, b1 = need(2)
    n = b1 & 127
    if n == 126:
        (n,) = struct.unpack("!H", need(2))
    elif n == 127:
        (n,) = struct.unpack("!Q", need(8))
    key = need(4) if b1 & 0x80 else None
    data = need(n)
    if key:
        data = bytes(b ^ key[i % 4] for i, b in enumerate(data))
    return b0 & 15, data


class Server(threading.Thread):
    def __init__(self, tls, bursts):
        threading.Thread.__init__(self, daemon=True)
        self.tls = tls
        self.bursts = bursts
        self.lsock = socket.socket()
        self.lsock.bind(("127.0.0.1", 0))
        self.lsock.listen(1)
        self.port = self.lsock.getsockname()[1]
        self.error = None
        self.acks = 0

    def run(self):
        try:
            conn, _ = self.lsock.accept()
            conn.settimeout(BUDGET + 5)
            if self.tls:
                ctx = ssl.SSLContext(ssl.PROTOCOL_TLS_SERVER)
                ctx.load_cert_chain(os.path.join(HERE, "tls", "cert.pem"), os.path.join(HERE, "tls", "key.pem"))
                conn = ctx.wrap_socket(conn, server_side=True)
            req = b""
            while b"\r\n\r\n" not in req:
                chunk = conn.recv(4096)
                if not chunk:
                    raise EOFError("client went away during the handshake")
                req += chunk
            key = [ln.split(b":", 1)[1].strip() for ln in req.split(b"\r\n") if ln.lower().startswith(b"sec-websocket-key")][0]
            accept = base64.b64encode(hashlib.sha1(key + GUID).digest())
            conn.sendall(b"HTTP/1.1 101 Switching Protocols\r\nUpgrade: websocket\r\nConnection: Upgrade\r\n"
                         b"Sec-WebSocket-Accept: " + accept + b"\r\n\r\n")
            for burst in self.bursts:
                conn.sendall(burst)              # one burst: hundreds of frames, far more than 64 KiB
                while True:                      # nothing more until the client has seen all of it
                    op, data = read_client_frame(conn)
                    if op == 1 and data.startswith(b"ack"):
                        self.acks += 1
                        break
            conn.sendall(frame(8, struct.pack("!H", 1000)))
            try:
                read_client_frame(conn)
            except Exception:
                pass
            conn.close()
        except Exception as error:   # reported, not raised
            self.error = "%s: %s" % (type(error).__name__, error)
        finally:
            self.lsock.close()


def make_bursts(kind):
    if kind == "many_small":
        per = [frame(1, ("message %05d " % i).encode() * 40) for i in range(300)]      # ~300 x 560 B
        ping = frame(9, b"p")
        return [b"".join(per[:150]) + ping + b"".join(per[150:]), b"".join(per)], [301, 300]
    big = [frame(2, os.urandom(1) * 70000) for _ in range(3)]                        # 3 x 70 000 B
    return [b"".join(big), b"".join(big)], [3, 3]


def run_one(tls, selector_name, kind):
    import lomond
    from lomond import selectors
    from lomond.session import WebsocketSession
    from lomond.websocket import WebSocket

    base = getattr(selectors, selector_name)
    state = {"in_wait": False, "recvs": 0, "sock": None, "events": 0}

    class WatchedSelector(base):
        def wait_readable(self, timeout=0.0):
            state["in_wait"] = True
            try:
                return base.wait_readable(self, timeout)
            finally:
                state["in_wait"] = False

    class WatchedSession(WebsocketSession):
        _selector_cls = WatchedSelector

        def _recv(self, count):
            state["recvs"] += 1
            state["sock"] = self._sock
            return WebsocketSession._recv(self, count)

    bursts, counts = make_bursts(kind)
    server = Server(tls, bursts)
    server.start()
    url = "%s://127.0.0.1:%d/" % ("wss" if tls else "ws", server.port)
    result = {"transport": "tls" if tls else "tcp", "selector": selector_name, "burst": kind,
              "frames_expected": sum(counts), "frames_received": 0, "stall": None, "inconclusive": None}
    done = threading.Event()

    def client():
        try:
            ws = WebSocket(url, proxies={})
            got = 0
            target = counts[0]
            bi = 0
            for ev in ws.connect(session_class=WatchedSession, poll=60, ping_rate=0, close_timeout=5):
                if ev.name in ("text", "binary", "ping"):
                    got += 1
                    result["frames_received"] = got
                    if got == target:
                        ws.send_text("ack %d" % bi)
                        bi += 1
                        if bi < len(counts):
                            target += counts[bi]
                elif ev.name == "disconnected":
                    result["graceful"] = ev.graceful
        except Exception as error:
            result["client_error"] = "%s: %s" % (type(error).__name__, error)
        finally:
            done.set()

    t = threading.Thread(target=client, daemon=True)
    t0 = time.time()
    t.start()
    streak = 0
    last_recvs = -1
    while not done.wait(0.1):
        if time.time() - t0 > BUDGET:
            result["inconclusive"] = "no completion within %.0f s and no stall condition observed" % BUDGET
            break
        sock = state["sock"]
        unread = 0
        pending = 0
        if sock is not None:
            try:
                buf = array.array("i", [0])
                fcntl.ioctl(sock.fileno(), termios.FIONREAD, buf)
                unread = buf[0]
            except Exception:
                unread = 0
            try:
                pending = sock.pending() if hasattr(sock, "pending") else 0
            except Exception:
                pending = 0
        if state["in_wait"] and state["recvs"] == last_recvs and (unread > 0 or pending > 0):
            streak += 1
            if streak >= 3:
                result["stall"] = ("client thread waits in %s although data is available (FIONREAD=%d, TLS pending=%d); "
                                   "%d of %d frames delivered" % (selector_name, unread, pending,
                                                                  result["frames_received"], result["frames_expected"]))
                break
        else:
            streak = 0
        last_recvs = state["recvs"]
    result["wall_s"] = round(time.time() - t0, 3)
    result["server_error"] = server.error
    result["acks"] = server.acks
    return result


def run_abrupt(selector_name, nframes=3):
    """The peer writes its last frames and is gone at once (a closed socketpair end: poll() then reports POLLIN together
    with POLLHUP).  Everything that was written had arrived before the connection ended, so all of it must be delivered
    before Disconnected.  Single-threaded and deterministic: the event iterator is driven by hand up to the first Poll,
    then the peer writes and closes, then the iteration goes on."""
    from lomond import selectors
    from lomond.session import WebsocketSession
    from lomond.websocket import WebSocket

    a, b = socket.socketpair()
    a.settimeout(10)
    b.settimeout(10)

    class PairSession(WebsocketSession):
        _selector_cls = getattr(selectors, selector_name)

        def _connect(self):
            return a, None

    result = {"transport": "unix_socketpair", "selector": selector_name, "burst": "last_frames_then_peer_gone",
              "frames_expected": nframes, "frames_received": 0, "stall": None, "inconclusive": None}
    t0 = time.time()

    def handshake():
        try:
            req = b""
            while b"\r\n\r\n" not in req:
                chunk = b.recv(4096)
                if not chunk:
                    return
                req += chunk
            key = [ln.split(b":", 1)[1].strip() for ln in req.split(b"\r\n") if ln.lower().startswith(b"sec-websocket-key")][0]
            accept = base64.b64encode(hashlib.sha1(key + GUID).digest())
            b.sendall(b"HTTP/1.1 101 Switching Protocols\r\nUpgrade: websocket\r\nConnection: Upgrade\r\n"
                      b"Sec-WebSocket-Accept: " + accept + b"\r\n\r\n")
        except Exception as error:
            result["server_error"] = "%s: %s" % (type(error).__name__, error)

    helper = threading.Thread(target=handshake, daemon=True)
    helper.start()
    try:
        ws = WebSocket("ws://pair.test/", proxies={})
        gen = ws.connect(session_class=PairSession, poll=2, ping_rate=0, close_timeout=2)
        names = []
        sent = False
        for ev in gen:
            names.append(ev.name)
            if ev.name in ("text", "binary"):
                result["frames_received"] += 1
            if ev.name == "poll" and not sent:
                sent = True
                helper.join(5)
                b.sendall(b"".join(frame(1, ("last words %d" % i).encode()) for i in range(nframes)))
                b.close()
            if time.time() - t0 > BUDGET or len(names) > 200:
                result["inconclusive"] = "no end of the connection within the budget; events %s" % names[-8:]
                break
        result["events"] = names[-12:]
        if not sent and not result["inconclusive"]:
            result["inconclusive"] = "the connection never reached its first Poll: %s" % names
    except Exception as error:
        result["client_error"] = "%s: %s" % (type(error).__name__, error)
    finally:
        for s_ in (a, b):
            try:
                s_.close()
            except Exception:
                pass
    result["wall_s"] = round(time.time() - t0, 3)
    result.setdefault("server_error", None)
    return result


def run_local_close(selector_name, at_event):
    """C07 on real descriptors with the platform selector: the APPLICATION ends the transport itself - its handler calls
    ws.session.close() (what leaving a ``with ws:`` block does) at the first <at_event> - and keeps iterating.  The
    iteration must end with one terminal event.  Verdict by COUNTING, not by the clock: more than 300 further events
    without a terminal one is a violation; running out of the time budget is inconclusive."""
    from lomond import selectors
    from lomond.session import WebsocketSession
    from lomond.websocket import WebSocket

    a, b = socket.socketpair()
    a.settimeout(10)
    b.settimeout(10)

    class PairSession(WebsocketSession):
        _selector_cls = getattr(selectors, selector_name)

        def _connect(self):
            return a, None

    result = {"transport": "unix_socketpair", "selector": selector_name, "scenario": "session_closed_by_handler_at_" + at_event,
              "violation": None, "inconclusive": None}
    t0 = time.time()

    def server():
        try:
            req = b""
            while b"\r\n\r\n" not in req:
                chunk = b.recv(4096)
                if not chunk:
                    return
                req += chunk
            key = [ln.split(b":", 1)[1].strip() for ln in req.split(b"\r\n") if ln.lower().startswith(b"sec-websocket-key")][0]
            accept = base64.b64encode(hashlib.sha1(key + GUID).digest())
            b.sendall(b"HTTP/1.1 101 Switching Protocols\r\nUpgrade: websocket\r\nConnection: Upgrade\r\n"
                      b"Sec-WebSocket-Accept: " + accept + b"\r\n\r\n" + frame(1, b"hello") + frame(9, b"p"))
        except Exception as error:
            result["server_error"] = "%s: %s" % (type(error).__name__, error)

    helper = threading.Thread(target=server, daemon=True)
    helper.start()
    names = []
    try:
        ws = WebSocket("ws://pair.test/", proxies={})
        closed_at = None
        for ev in ws.connect(session_class=PairSession, poll=0.05, ping_rate=0, close_timeout=2):
            names.append(ev.name)
            if closed_at is None and ev.name == at_event:
                ws.session.close()
                closed_at = len(names)
            if closed_at is not None and len(names) - closed_at > 300:
                result["violation"] = ("the application closed the session at event %d (%s); %d events later the iteration "
                                       "still goes on without a terminal event (last: %s)" % (
                                           closed_at - 1, at_event, len(names) - closed_at, names[-3:]))
                break
            if time.time() - t0 > BUDGET:
                result["inconclusive"] = "time budget used up after %d events" % len(names)
                break
        else:
            terminals = [n for n in names if n in ("connect_fail", "disconnected")]
            if len(terminals) != 1 or names[-1] != terminals[0]:
                result["violation"] = "iteration ended with events %s: not exactly one terminal event, last" % names[-8:]
        if closed_at is None and not result["violation"] and not result["inconclusive"]:
            result["inconclusive"] = "event %s never occurred: %s" % (at_event, names)
    except Exception as error:
        result["violation"] = "exception out of the iterator: %s: %s" % (type(error).__name__, error)
    finally:
        for s_ in (a, b):
            try:
                s_.close()
            except Exception:
                pass
    result["events"] = names[:10]
    result["n_events"] = len(names)
    result["wall_s"] = round(time.time() - t0, 3)
    return result


def main():
    if "c07" in sys.argv[1:]:
        import logging
        logging.getLogger("lomond").addHandler(logging.NullHandler())
        logging.getLogger("lomond").propagate = False
        out = []
        for sel in ("PollSelector", "SelectSelector"):
            for at in ("ready", "poll", "text", "ping"):
                out.append(run_local_close(sel, at))
        print(json.dumps(out))
        return
    out = []
    for sel in ("PollSelector", "SelectSelector"):
        out.append(run_abrupt(sel))
    for tls in (False, True):
        for sel in ("PollSelector", "SelectSelector"):
            for kind in ("many_small", "few_large"):
                out.append(run_one(tls, sel, kind))
    print(json.dumps(out))


if __name__ == "__main__":
    main()
