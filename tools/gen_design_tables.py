#!/usr/bin/env python3
"""Regenerate the generated tables of DESIGN.md (between <!-- BEGIN x --> / <!-- END x --> markers)
from selftest/last_results.json (+ selftest/mutants.py) and seeded/*/meta.json."""
import json, os, re, sys, glob
HERE = os.path.dirname(os.path.dirname(os.path.abspath(__file__)))
sys.path.insert(0, os.path.join(HERE, "selftest"))
from mutants import MUTANTS

def mutants_table():
    res = {}
    p = os.path.join(HERE, "selftest", "results_full.json")
    if os.path.exists(p):
        for r in json.load(open(p)):
            res[(r["mutant"], r["property"])] = r
    rows = ["| mutant | edits (file) | check | expected | outcome | signature |", "|---|---|---|---|---|---|"]
    killed = survived = equiv_ok = equiv_bad = 0
    for m in MUTANTS:
        files = ", ".join(sorted(set(os.path.basename(e[0]) for e in m["edits"])))
        for prop in m["props"]:
            r = res.get((m["name"], prop))
            want = "stay green (behaviour-preserving)" if m.get("equivalent") else "VIOLATION"
            if r is None:
                out, sig = "not run", ""
            else:
                ok = r["rc"] == r["want"]
                out = ("killed" if r["rc"] == 1 else "green") + ("" if ok else " **UNEXPECTED**")
                sig = r.get("signature", "")
                if m.get("equivalent"):
                    equiv_ok += ok; equiv_bad += (not ok)
                else:
                    killed += ok; survived += (not ok)
            rows.append("| %s | %s | %s | %s | %s | %s |" % (m["name"], files, prop, want, out, sig))
    head = ("%d breaking mutants killed, %d survived; %d behaviour-preserving mutants left green, %d flagged.\n\n" %
            (killed, survived, equiv_ok, equiv_bad))
    return head + "\n".join(rows)

def seeded_table():
    rows = ["| id | breaks | change (one line) | needs to manifest | tests still pass | demo fails with / passes without | caught by (quick tier) |",
            "|---|---|---|---|---|---|---|"]
    for d in sorted(glob.glob(os.path.join(HERE, "seeded", "*"))):
        mp = os.path.join(d, "meta.json")
        if not os.path.exists(mp):
            continue
        m = json.load(open(mp))
        name = os.path.basename(d)
        det = []
        for c, v in sorted(m.get("checks", {}).items()):
            if v["rc"] == 1:
                det.append("%s (%s)" % (c, v["signature"]))
        rows.append("| %s | %s | %s | %s | %s | %s / %s | %s |" % (
            name, m.get("breaks_property", m.get("property")), m.get("summary", ""), m.get("needs_to_manifest", ""),
            "yes" if m.get("tests_ok") else "NO", "yes" if m.get("demo_with_change_rc") else "NO",
            "yes" if m.get("demo_without_change_rc") == 0 else "NO", "; ".join(det) or "**none**"))
    return "\n".join(rows)

def main():
    p = os.path.join(HERE, "DESIGN.md")
    s = open(p).read()
    for key, fn in (("MUTANTS", mutants_table), ("SEEDED", seeded_table)):
        a, b = "<!-- BEGIN %s -->" % key, "<!-- END %s -->" % key
        if a in s and b in s:
            s = s[:s.index(a) + len(a)] + "\n" + fn() + "\n" + s[s.index(b):]
    open(p, "w").write(s)
    print("tables regenerated")

if __name__ == "__main__":
    main()
