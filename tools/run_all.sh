#!/bin/sh
# tools/run_all.sh [tier] [seed]  - run every registered check, print one line each
tier=${1:-quick}; seed=${2:-1}
cd "$(dirname "$0")/.."
for id in C01 C02 C03 C04 C05 C06 C07 C08 C09 C10 C11 C12 C13 C14 C15 C16 C17 C18 C19; do
  start=$(date +%s)
  out=$(VERIF_SEED=$seed ./check $id --tier $tier 2>&1); rc=$?
  end=$(date +%s)
  echo "$id rc=$rc $((end-start))s $(echo "$out" | grep -E 'VIOLATION|HARNESS|evaluations' | tail -1)"
done
