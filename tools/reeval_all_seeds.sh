#!/bin/sh
# tools/reeval_all_seeds.sh [parallelism]  - re-evaluate every stored seeded change against the current tree
cd "$(dirname "$0")/.."
ls seeded | xargs -P "${1:-4}" -I{} sh -c 'n={}; id=${n%%-*}; python3 tools/eval_seed.py $id --name $n 2>&1 | tail -1'
