"""python tools/debug_case.py C15 out/file.json  -> prints the trace of a scenario-based case"""
import sys, json, os
if os.path.exists("/venv/bin/python") and os.path.realpath(sys.executable) != os.path.realpath("/venv/bin/python"):
    # the checks run under /venv (any other interpreter would make boot install its own copy of the dependencies)
    os.execv("/venv/bin/python", ["/venv/bin/python"] + sys.argv)
sys.path.insert(0, os.path.dirname(os.path.dirname(os.path.abspath(__file__))))
from harness import boot
boot.init(reexec=False)
import props
from harness import simnet
prop = props.load(sys.argv[1])
doc = json.load(open(sys.argv[2]))
case = doc.get("case", doc)
orig = simnet.run_scenario
def spy(scn, *a, **k):
    tr = orig(scn, *a, **k)
    print("---- scenario", json.dumps(scn, default=repr)[:1500])
    for e in tr.events:
        print("   ", {k: (v if not isinstance(v, (bytes, str)) or len(v) < 60 else v[:60]) for k, v in e.items()})
    print("   ended:", tr.ended, "hang:", tr.hang, "escaped:", tr.escaped)
    if "-v" in sys.argv:
        for e in tr.sim.log:
            print("      ", e[0], e[1], (e[2][:40] if isinstance(e[2], (bytes, bytearray)) else e[2]), e[3], e[4], e[5])
    return tr
simnet.run_scenario = spy
for m in list(sys.modules.values()):
    if m and getattr(m, "__name__", "").startswith("props."):
        pass
res = prop.run_case(case)
print("RESULT ok=%s sig=%s detail=%s" % (res.ok, res.signature, res.detail))
