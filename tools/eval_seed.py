#!/usr/bin/env python3
"""tools/eval_seed.py <ID> [--all] [--tier quick] [--from <worktree>] [--name <dir under seeded/>]

Take the seeded change a sub-agent left in the scratch worktree /tmp/seed/<ID> (uncommitted diff +
demo_<ID>.py), confirm it independently in a fresh scratch copy of /repo (outside /repo and /verif):
  * the repository's tests still pass exactly as the baseline (162),
  * the demonstration fails with the change and passes without it,
then run the property's check (or, with --all, every check) against the changed copy via VERIF_REPO,
store everything under /verif/seeded/<ID>/ (patch.diff, the demo, meta.json) and remove the scratch copy.
"""
import json, os, shutil, subprocess, sys, tempfile, time

VERIF = os.path.dirname(os.path.dirname(os.path.abspath(__file__)))
REPO = "/repo"
ALL = ["C%02d" % i for i in range(1, 20)]


def sh(cmd, **kw):
    return subprocess.run(cmd, capture_output=True, text=True, **kw)


def main():
    pid = sys.argv[1]
    tier = "quick"
    if "--tier" in sys.argv:
        tier = sys.argv[sys.argv.index("--tier") + 1]
    which = ALL if "--all" in sys.argv else ([pid] if "--checks" not in sys.argv else
                                            sys.argv[sys.argv.index("--checks") + 1].split(","))
    name = sys.argv[sys.argv.index("--name") + 1] if "--name" in sys.argv else pid
    dest = os.path.join(VERIF, "seeded", name)
    # --from <worktree>: (re)import the change from a sub-agent's worktree; otherwise what is stored is re-evaluated
    src = sys.argv[sys.argv.index("--from") + 1] if "--from" in sys.argv else "/nonexistent"
    demo_id = name.split("-")[0]
    if os.path.isdir(src):
        diff = sh(["git", "-C", src, "diff"]).stdout
        demo_src = os.path.join(src, "demo_%s.py" % demo_id)
    else:   # re-evaluate what is already stored
        diff = open(os.path.join(dest, "patch.diff")).read()
        demo_src = os.path.join(dest, "demo_%s.py" % demo_id)
    if not diff.strip():
        print("no diff for", pid)
        return 2
    os.makedirs(dest, exist_ok=True)
    if not os.path.exists(os.path.join(dest, "patch.diff")) or os.path.isdir(src):
        open(os.path.join(dest, "patch.diff"), "w").write(diff)
        if os.path.abspath(demo_src) != os.path.abspath(os.path.join(dest, os.path.basename(demo_src))):
            shutil.copy(demo_src, dest)
    demo = os.path.join(dest, "demo_%s.py" % demo_id)
    scratch = tempfile.mkdtemp(prefix="seedchk_%s_" % pid, dir="/tmp")
    meta = {"property": pid, "ran": []}
    try:
        for d in ("lomond", "tests"):
            shutil.copytree(os.path.join(REPO, d), os.path.join(scratch, d))
        for f in ("setup.cfg", "tox.ini"):
            if os.path.exists(os.path.join(REPO, f)):
                shutil.copy(os.path.join(REPO, f), scratch)
        r = sh(["patch", "-p1", "-i", os.path.join(dest, "patch.diff")], cwd=scratch)
        if r.returncode != 0:
            print("patch does not apply:", r.stdout, r.stderr)
            return 2
        r = sh([sys.executable, os.path.join(VERIF, "tools", "baseline.py"), scratch])
        meta["tests_with_change"] = r.stdout.strip().splitlines()[0] if r.stdout else r.stderr[-200:]
        meta["tests_ok"] = r.returncode == 0
        meta["ran"].append("tools/baseline.py <scratch copy with patch>  -> " + meta["tests_with_change"])
        env = dict(os.environ)
        r1 = sh(["/venv/bin/python", demo], cwd=scratch, env=dict(env, PYTHONPATH=scratch))
        r0 = sh(["/venv/bin/python", demo], cwd=REPO, env=dict(env, PYTHONPATH=REPO))
        meta["demo_with_change_rc"] = r1.returncode
        meta["demo_without_change_rc"] = r0.returncode
        meta["demo_with_change_tail"] = (r1.stdout + r1.stderr)[-400:]
        meta["ran"].append("PYTHONPATH=<scratch> python demo_%s.py -> rc %d ; PYTHONPATH=/repo python demo_%s.py -> rc %d" % (
            pid, r1.returncode, pid, r0.returncode))
        meta["confirmed"] = bool(meta["tests_ok"] and r1.returncode != 0 and r0.returncode == 0)
        results = {}
        for cid in which:
            t0 = time.time()
            r = sh([os.path.join(VERIF, "check"), cid, "--tier", tier],
                   env=dict(env, VERIF_REPO=scratch, VERIF_NO_EVIDENCE="1"))
            sig = ""
            for line in r.stdout.splitlines():
                if line.startswith("failure signature:"):
                    sig = line.split(":", 1)[1].strip()
            results[cid] = {"rc": r.returncode, "signature": sig, "seconds": round(time.time() - t0, 1)}
            if r.returncode == 2:
                results[cid]["stderr"] = r.stderr[-300:]
            meta["ran"].append("VERIF_REPO=<scratch> ./check %s --tier %s -> rc %d %s" % (cid, tier, r.returncode, sig))
        meta["checks"] = results
        meta["detected_by"] = sorted(c for c, v in results.items() if v["rc"] == 1)
    finally:
        shutil.rmtree(scratch, ignore_errors=True)
    old = {}
    mp = os.path.join(dest, "meta.json")
    if os.path.exists(mp):
        old = json.load(open(mp))
    for k in ("needs_to_manifest", "summary", "breaks_property", "written_by", "round", "first_evaluation", "patch_rebased"):
        if k in old:
            meta[k] = old[k]
    if "checks" in old and not "--all" in sys.argv:
        merged = dict(old["checks"])
        merged.update(meta["checks"])
        meta["checks"] = merged
        meta["detected_by"] = sorted(c for c, v in merged.items() if v["rc"] == 1)
    json.dump(meta, open(mp, "w"), indent=1)
    print(name, "confirmed=%s" % meta["confirmed"], meta["tests_with_change"], "demo:", meta["demo_with_change_rc"],
          meta["demo_without_change_rc"], "detected_by:", meta["detected_by"],
          {c: v["signature"] for c, v in meta["checks"].items() if v["rc"] == 1})
    return 0


if __name__ == "__main__":
    sys.exit(main())
