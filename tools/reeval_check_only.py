#!/usr/bin/env python3
"""tools/reeval_check_only.py <seeded dir name>  - re-run ONLY the target property's quick check against a stored seeded
change (no test-suite / demonstration run: those were confirmed when the change was stored) and update its meta.json."""
import json, os, shutil, subprocess, sys, tempfile, time
VERIF = os.path.dirname(os.path.dirname(os.path.abspath(__file__)))
name = sys.argv[1]
pid = name.split("-")[0]
dest = os.path.join(VERIF, "seeded", name)
scratch = tempfile.mkdtemp(prefix="seedre_%s_" % name, dir="/tmp")
try:
    shutil.copytree("/repo/lomond", os.path.join(scratch, "lomond"))
    r = subprocess.run(["patch", "-p1", "-s", "-i", os.path.join(dest, "patch.diff")], cwd=scratch, capture_output=True, text=True)
    if r.returncode != 0:
        print(name, "PATCH-FAILS", r.stdout[-200:])
        sys.exit(2)
    t0 = time.time()
    r = subprocess.run([os.path.join(VERIF, "check"), pid, "--tier", "quick"], capture_output=True, text=True,
                       env=dict(os.environ, VERIF_REPO=scratch, VERIF_NO_EVIDENCE="1"))
    sig = ""
    for line in r.stdout.splitlines():
        if line.startswith("failure signature:"):
            sig = line.split(":", 1)[1].strip()
    mp = os.path.join(dest, "meta.json")
    meta = json.load(open(mp))
    meta.setdefault("checks", {})[pid] = {"rc": r.returncode, "signature": sig, "seconds": round(time.time() - t0, 1)}
    meta["detected_by"] = sorted(c for c, v in meta["checks"].items() if v["rc"] == 1)
    json.dump(meta, open(mp, "w"), indent=1)
    print(name, "rc=%d" % r.returncode, sig, "%.0fs" % (time.time() - t0),
          "" if r.returncode == 1 else "<<<<<< NOT CAUGHT " + r.stderr[-200:])
finally:
    shutil.rmtree(scratch, ignore_errors=True)
