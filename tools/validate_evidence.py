#!/usr/bin/env python3
"""Validate evidence/*.json against the evidence schema (run with python3-vt)."""
import glob, json, sys, os
import jsonschema
schema = json.load(open("/root/.vp/EVIDENCE.schema.json"))
bad = 0
here = os.path.dirname(os.path.dirname(os.path.abspath(__file__)))
for f in sorted(glob.glob(os.path.join(here, "evidence", "*.json"))):
    try:
        jsonschema.validate(json.load(open(f)), schema)
        d = json.load(open(f))
        print("ok  ", os.path.basename(f), d["tier"], d["coverage"]["evaluations"], d["coverage"]["distinct_nontrivial"], "%.1fs" % d["wall_s"])
    except Exception as e:
        bad += 1
        print("BAD ", f, str(e)[:300])
sys.exit(1 if bad else 0)
