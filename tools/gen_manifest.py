#!/usr/bin/env python3
"""Regenerate MANIFEST.json from the table below (keeps it schema-valid)."""
import json
import os

HERE = os.path.dirname(os.path.dirname(os.path.abspath(__file__)))

CHECKS = {
    "C01": dict(
        category="exploration", design_ref="DESIGN.md section 3 / C01",
        technique="property-based testing (Hypothesis): generated conforming sessions vs by-construction reference model; exhaustive length/form grid",
        text="Generated-input search: thousands of conforming server sessions (messages x fragmentations x interleaved "
             "controls x length forms x read segmentations) are run through the real client on a simulated transport "
             "and compared both ways with the message list they were built from; payloads are re-read after the run. "
             "A complete grid of payload lengths 0..300 and 65530..65540 x 3 length forms x 1/2 fragments is "
             "enumerated. Exploration, not proof: sizes <= 200000 bytes, <= 12 messages.",
        note="Trusts the harness's independent frame builder (self-tested on RFC 6455 5.7 examples), CPython, Hypothesis."),
    "C04": dict(
        category="exploration", design_ref="DESIGN.md section 3 / C04",
        technique="exhaustive enumeration of all 65536 frame headers x 4 contexts + Hypothesis violation injection, differential against a reference RFC 6455 reading",
        text="All 65536 two-byte frame headers (completed with the extended length, mask key and payload they announce; "
             "lengths 126/127 with a table of extended values incl. 2^63-1, 2^63, 2^64-1) are fed to the real client in four "
             "contexts and its verdict/events compared with an independent executable reading of RFC 6455 - exhaustive for that "
             "space. Hypothesis then injects one violating frame of each of 13 classes after generated conforming prefixes "
             "(possibly inside an unfinished message, client possibly closing), with conforming suffix and arbitrary read "
             "segmentation, and checks the five clauses (prefix delivered, exactly one ProtocolError, nothing later delivered, "
             "non-graceful Disconnected, at most one Close written). Beyond the enumerated space it is sampling.",
        note="Trusts harness/refmodel.py (self-tested per violation class), harness/wire.py, zlib for RSV1 contexts."),
    "C05": dict(
        category="exploration", design_ref="DESIGN.md section 3 / C05",
        technique="exhaustive product-automaton comparison with an RFC 3629 recogniser + Hypothesis end-to-end iff and fail-fast checks",
        text="The validator is compared with an independent RFC 3629 recogniser over the complete product automaton (every "
             "reachable state pair x 256 bytes) and, black-box, over all 17652 strict prefixes of well-formed characters x 256 "
             "next bytes x every 2-chunk split: exhaustive for the validator, so its verdict is decided for all byte strings. "
             "End to end, Hypothesis sends valid/near-valid/invalid payloads as text messages (any fragmentation, interleaved "
             "controls, read segmentation, plain or with permessage-deflate negotiated) and as close reasons and demands "
             "delivery iff valid with the exact decoding; for invalid uncompressed text the stream is cut right after the "
             "first offending byte and the ProtocolError must appear before the client idles (fail-fast).",
        note="Trusts harness/utf8ref.py (checked against CPython's strict decoder on all 2-byte strings and a boundary table)."),
    "C02": dict(
        category="exploration", design_ref="DESIGN.md section 3 / C02",
        technique="metamorphic property-based testing (two segmentations of one stream must agree) + exhaustive cut-set enumeration for short streams",
        text="Metamorphic differential: the same server byte stream is delivered once in whole reads and once under a generated "
             "segmentation; events (with payloads) and client-written bytes must be identical. Streams come from conforming "
             "sessions (with/without permessage-deflate), injected violations, byte-edited variants, raw bytes and oversized "
             "handshake replies around the 16 KiB bound; the application is passive or reacts per message ordinal. For a "
             "catalogue of 45 short streams ALL cut sets are enumerated (exhaustive for those streams), and the handshake reply "
             "(+ first frame) under all cut sets of size <= 2, every uniform chunk size and byte-wise.",
        note="Deterministic masking/handshake keys and a frozen clock make raw client bytes comparable; reads never exceed 64 KiB."),
    "C03": dict(
        category="exploration", design_ref="DESIGN.md section 3 / C03",
        technique="property-based testing of the send API: generated calls decoded by an independent strict RFC 6455 decoder (round trip) + exhaustive length sweep",
        text="Generated sequences of send_text/send_binary/send_json/send_ping/send_pong/close calls (valid and invalid arguments, "
             "drawn masking keys, compression negotiated or not) on a Ready connection; the bytes each call hands to sendall are "
             "decoded by an independent strict client-frame decoder and unmasked/inflated back to the caller's payload; invalid "
             "calls must raise TypeError/ValueError and write nothing; arguments compared with deep copies. Every payload length "
             "0..1100 and 65530..65545 x 4 fixed keys x text/binary is enumerated.",
        note="Trusts harness/wire.py strict decoder and harness/deflateref.py (zlib) for RSV1 frames."),
    "C07": dict(
        category="exploration", design_ref="DESIGN.md section 3 / C07",
        technique="bounded exhaustive enumeration of server/application histories + Hypothesis long scripts, checked by an event-grammar monitor on a virtual clock",
        text="Every history of 3 (quick) or 4 (thorough) server steps over a 19-symbol alphabet x 9 application policies x 2 option "
             "sets is run on the simulated transport (exhaustive to that depth, ~10^5 / ~2x10^6 connections); Hypothesis adds scripts "
             "of up to 40 steps with per-event reactions, address lists and random timer settings. A monitor checks the grammar of "
             "the statement and that iteration ends (no hang once EOF/reset has been delivered, StopIteration afterwards, no "
             "escaping exception). Liveness is judged on the virtual clock only.",
        note="Termination = the iterator ends within a bounded number of loop cycles after the transport ended (HarnessHang otherwise)."),
    "C08": dict(
        category="exploration", design_ref="DESIGN.md section 3 / C08",
        technique="property-based testing of generated closing histories against a reference close state machine over events, decoded wire log and call results",
        text="Hypothesis generates closing histories (who closes first, at which event, with which code/reason, repeated close(), "
             "server messages before and between the Closes, application sends before/during/after, EOF timing, read segmentation) "
             "and a reference close state machine checks: one Close frame with the given code/reason, later sends raise "
             "WebSocketError and write nothing, incoming messages still delivered, Closed then graceful Disconnected and the "
             "socket closed without waiting for EOF; server-first: Closing, sends allowed during that event and ahead of the echo, "
             "echo with the same code, graceful Disconnected on EOF; always <= 1 Close and no data frame after it.",
        note="Single-threaded histories only; frames after the server's own Close are not generated."),
    "C14": dict(
        category="exploration", design_ref="DESIGN.md section 3 / C14",
        technique="property-based testing: ordering invariant over the recorded wire log of generated Ping-dense streams, plus metamorphic comparison with the fault-free run",
        text="Generated Ping-dense conforming streams x auto_pong on/off x application reactions x close() at a drawn message x one "
             "failing pong write. Invariant over the ordered wire log: library-written Pongs match the Ping events before the "
             "client's Close one-to-one, in order, byte-exact, each written before its Ping event is yielded; none with auto_pong "
             "off; a failed/refused pong leaves the event stream identical to the fault-free run.",
        note="Library vs application writes are distinguished by who is running when sendall is called."),
    "C09": dict(
        category="fault_enumeration", design_ref="DESIGN.md section 3 / C09",
        technique="systematic fault injection: for each Hypothesis-generated scenario, one run per (socket operation, fault kind) and per truncation offset, judged by an event/wire-log oracle",
        text="For every generated base scenario the fault-free run's socket operations are recorded and the scenario is re-run once "
             "per individual fault: resolver error, refused/timeout/unreachable connect on the first j of n addresses, every "
             "sendall (request, pongs, pings, close echo, application sends) x 3 fault kinds, every recv x 3, every selector wait x 2, "
             "shutdown/close raising, and the stream truncated at every byte offset followed by EOF and by reset. Each run must "
             "end in the right terminal event without an escaping exception or a hang, non-gracefully when no Close was ever sent "
             "or received, with every socket released and application send errors being WebSocketError.",
        note="Faults are injected one at a time (single-fault sequences); 'released' = close() called or object finalised."),
    "C13": dict(
        category="fault_enumeration", design_ref="DESIGN.md section 3 / C13",
        technique="systematic crash-point enumeration: abandon the iterator at every event index by each of four mechanisms, check socket/selector release",
        text="For every generated base scenario (incl. idle periods giving top-of-loop Polls, ping timeouts giving Unresponsive, TLS "
             "wrapping) the consumer abandons the loop at every event index of the fault-free run by break, handler exception, "
             "generator.close() and an exception leaving a with-block; afterwards the simulated socket must be closed (or finalised) "
             "and the selector closed while the WebSocket object is still alive.",
        note="CPython reference counting finalises the dropped generator; gc.collect() is run before a leak is reported."),
    "C10": dict(
        category="exploration", design_ref="DESIGN.md section 3 / C10",
        technique="property-based testing: generated URLs/options/replies; request parsed by an independent strict HTTP parser, verdict compared with an independent digest + RFC 7230 interpretation oracle",
        text="Hypothesis draws URL shapes, options, 16-byte keys (served through os.urandom; two connects per object) and replies "
             "from an RFC 7230-valid grammar (status, header order/casing/OWS/folding/duplicates, Upgrade variants, 17 accept "
             "classes, block sizes around 16 KiB with/without terminator, read segmentation, a frame in the same stream). The "
             "request must parse under a strict independent parser with exactly the required fields and the key drawn for this "
             "connect; Ready iff 101 + Upgrade websocket + exact digest, with negotiated protocol/extensions; otherwise "
             "Rejected/ProtocolError, no Ready, no message events, socket released. A full accept x Upgrade x status grid is "
             "enumerated. One open known finding (case-insensitive accept comparison) is excluded by a narrow signature.",
        note="Meaning of generated replies is computed from the generator's structure (httpref.interpret_reply), digest by hashlib."),
    "C06": dict(
        category="exploration", design_ref="DESIGN.md section 3 / C06",
        technique="property-based testing of message histories against an independent window-enforcing RFC 7692 reference peer; all 256 parameter combinations enumerated",
        text="Every one of the 8x8x2x2 negotiated configurations is run with a fixed battery of three histories (cross-message "
             "repeats both ways, payloads longer than any window, empty/tiny/incompressible) - exhaustive over configurations; "
             "Hypothesis adds random configurations, header spellings and histories of up to 10 client/server messages "
             "(fragmented compressed messages incl. empty fragments, interleaved controls, mid-message flushes, levels 0-9, "
             "compress=False, no negotiation, one randomly damaged compressed message). An independent RFC 7692 peer that "
             "enforces the negotiated LZ77 windows (1-byte output steps) must restore every client message and every message it "
             "compresses must arrive intact; damaged input must give the reference inflater's content or a ProtocolError.",
        note="DEFLATE is zlib on both sides; peer logic (tail handling, context resets, parameter mapping, window) is independent."),
    "C15": dict(
        category="exploration", design_ref="DESIGN.md section 3 / C15",
        technique="property-based testing on a virtual clock: generated timer configurations and arrival histories checked against closed-form timing bounds",
        text="The real client runs on a harness-owned virtual clock (selector waits advance it), so every Poll/Unresponsive/"
             "Disconnected event and every automatic Ping frame has an exact timestamp. Hypothesis draws poll, ping_rate, "
             "ping_timeout, close_timeout (incl. 0/None), arrival histories on a 1/8 s grid with arrivals deliberately one grid step "
             "around the deadlines, an optional close() and server reply, and a delayed handshake; the oracle checks the bounds of "
             "the statement exactly (no tolerance: all arithmetic is exact on the grid). A full parameter grid x 3 canonical "
             "histories is enumerated as well.",
        note="Handler time is zero on the virtual clock; real-time behaviour of the OS selector is outside this check (see C18)."),
    "C16": dict(
        category="exploration", design_ref="DESIGN.md section 3 / C16",
        technique="property-based testing of outcome sequences against the closed-form back-off delay, with scripted (model) and real-client drivers",
        text="Hypothesis draws min/max waits, sequences of up to 40 connection outcomes, the uniform draws (served through "
             "lomond.persist.random, incl. 0 and 1-2^-53) and the back-off at which the exit event fires; persist() is driven over "
             "a duck-typed websocket replaying scripted event objects and over the real WebSocket on the simulated transport. "
             "Checked: pass-through of every event object in order, exactly one BackOff per attempt, connect() arguments, the "
             "exact delay min_wait + u*min(max_wait-min_wait, 2^k) and its bounds, one exit_event.wait(delay) per BackOff, ending "
             "exactly when wait returns True. All 3^5 outcome sequences x 5 wait settings are enumerated.",
        note="No real sleeping: the exit event and the uniform source are harness objects; 'forever' is observed up to a horizon of 40 attempts."),
    "C17": dict(
        category="exploration", design_ref="DESIGN.md section 3 / C17",
        technique="metamorphic property-based testing: reused object vs fresh object must give identical traces for the same server behaviour",
        text="A chain of 1-4 previous connections with abnormal endings (12 kinds: cuts at drawn offsets, unfinished fragmented text "
             "with half a character, mid-compressed-message with context takeover, closing, rejected, oversize reply, connect "
             "failure, protocol error, armed timers, abandonment) is followed by a connection B on the same WebSocket object; B's "
             "normalised trace (events, payloads, relative virtual times, unmasked client frames, request) must equal the trace of "
             "B on a fresh object, and each request must carry the key drawn for that connect. Every abnormal ending x 4 cut "
             "positions x compression on/off x 2 canonical B's is enumerated.",
        note="The previous generator is finalised before the next connect(), as persist() does."),
    "C19": dict(
        category="fault_enumeration", design_ref="DESIGN.md section 3 / C19",
        technique="property-based testing + enumeration of proxy replies, cut positions and per-call faults, judged on the ordered log of the simulated proxy socket",
        text="Proxy configuration shapes (mapping / environment, ws / wss, proxy URL forms), 20 proxy reply classes followed by EOF "
             "or silence, every cut position and chunk size of two replies (exhaustive), and a fault at each proxy-socket call are "
             "run; the ordered socket log must show: connect to the proxy's host/port, one CONNECT for exactly host:port, no other "
             "write before a complete 200 reply has been read, then (only for 200) TLS wrap for wss and the WebSocket GET on the "
             "same socket with Connected.proxy set; otherwise ConnectFail and no byte of the handshake written.",
        note="The proxy's reply is complete before tunnelled traffic starts; syntax of Proxy-Authorization is not judged."),
    "C18": dict(
        category="exploration", design_ref="DESIGN.md section 3 / C18",
        technique="property-based testing on a virtual clock with a record-oriented TLS model (latency must be zero) + real loopback TCP/TLS runs with a logical stall detector",
        text="On the virtual clock (poll = 60 s) generated arrival patterns - up to 300 small frames per burst with Pings inside, or "
             "large frames around the 16 KiB TLS record and 64 KiB receive buffer sizes - are delivered over a plain socket or a TLS "
             "model in which decrypted-but-unread bytes are visible only through pending(); every message event and automatic Pong "
             "must carry exactly the time its last byte became available. A sizes x record-sizes grid is enumerated. In both tiers "
             "the real client is also run against loopback TCP and TLS servers with the real PollSelector and SelectSelector and "
             "420 KB bursts, the server withholding traffic until acknowledged; a stall is declared only on a logical condition "
             "(client in selector, recv count frozen, FIONREAD or SSL pending > 0), a plain time-out is 'inconclusive'.",
        note="TLS model follows OpenSSL's SSL_read/SSL_pending contract; KQueueSelector cannot be instantiated on Linux."),
    "C11": dict(
        category="exploration", design_ref="DESIGN.md section 3 / C11",
        technique="systematic schedule enumeration under a deterministic thread scheduler (all single preemptions, all pairs for 2-thread scenarios) + Hypothesis-drawn schedules; wire decoded by independent codec and RFC 7692 peer",
        text="Real threads are serialised by a harness-owned scheduler with yield points at every source line inside lomond, at every "
             "lock acquisition and in the middle of every sendall, so an execution is a pure function of the schedule. For 10 "
             "scenarios (2-3 sender threads, 1-3 sends each, with/without compression context takeover, event loop answering Pings or "
             "sending an automatic Ping) every thread order x every effective single preemption is enumerated in both tiers, every "
             "pair of preemptions for the four 2x1 scenarios in the thorough tier, and Hypothesis draws schedules with up to 8 "
             "preemptions. The resulting byte stream must decode into whole valid frames holding exactly the messages sent, each "
             "thread's in call order, and an RFC 7692 peer must inflate every compressed frame in wire order.",
        note="Granularity is the source line (+ lock acquisition, mid-sendall); switches inside a line or inside C calls are not explored; exhaustive only up to the stated preemption bound."),
    "C12": dict(
        category="exploration", design_ref="DESIGN.md section 3 / C12",
        technique="systematic schedule enumeration under the deterministic thread scheduler (all single preemptions, pairs for 4 scenarios) + Hypothesis-drawn schedules; invariant over the decoded wire log and call results",
        text="Same scheduler as C11. 12 scenarios race close() with send_text/send_binary/send_ping/close() on 2-3 threads and with "
             "the event-loop thread echoing a server Close, completing the closing handshake, answering a Ping or crossing a ping "
             "deadline. Every thread order x every effective single preemption (both tiers), every pair for four scenarios "
             "(thorough), random schedules up to 8 preemptions. Invariant: at most one Close frame on the wire, nothing after it, "
             "each racing send either wrote its frame before the Close or raised a WebSocketError and wrote nothing.",
        note="Same granularity limits as C11."),
}

# extensions made after the seeded-change rounds (appended to the level text)
EXT = {
    "C01": "The same sessions are also run with permessage-deflate negotiated (messages compressed by a reference peer according to a drawn mask) and over the record-oriented TLS model (record sizes 1..16384, with and without read-ahead). Cases may be preceded by an earlier connection in the same process (same WebSocket object or another one) that ended in one of 19 abnormal ways; a fixed battery is run after every such ending. Cases may run with a second live connection in the same process (interleaved at events and after reads, or blocked inside a send). The application may also make calls with unsendable arguments (and catch the error) at drawn events: they must leave no trace. Negotiated window sizes and no_context_takeover flags are drawn too, and every window pair x flag combination is enumerated with payloads whose back-references span the peer's window inside a message and into earlier messages. The 15 special code points are enumerated as text (whole, split inside the character, compressed), as binary and as close reason. Cases may run with DEBUG logging switched on for the library (every record formatted by a handler); the fixed battery is enumerated that way. The fixed battery also runs through an HTTP proxy (ws and wss) and with each of its automatic Pongs failing to be written (timeout, transient error, EINTR, EAGAIN): the messages are delivered all the same. The application may call close() at any message while the server keeps sending (the battery enumerated at Ready and at each of the first messages, plain and compressed): everything is still delivered, and the server's Close is then reported as Closed. The application may also send (text and binary) while handling the k-th message - enumerated over the window grid: a send must leave the receiving side alone.",
    "C02": "The alternative segmentation may additionally go through the TLS model (reads cut at record boundaries, sized by pending()). In the thorough tier 16 atheris (libFuzzer) processes fuzz (cut list, stream bytes) against the same oracle, half from the catalogue corpus, half from an empty corpus. For conforming sessions a third delivery - one frame per read - is compared as well, because two deliveries that both put a frame boundary inside a read can be wrong in the same way. The catalogue and the reply-cut enumeration include payloads that look like what the handshake parser waits for (CRLFCRLF and pieces of it). Replies that are no upgrade at all (ICY, a leading empty line, 404, lower-case status line, SSH banner, TLS bytes, a body behind the header) are enumerated under every single cut and every uniform chunk size.",
    "C04": "Classes include invalid UTF-8 in a non-final fragment after an interleaved control frame and masked non-final fragments; every header under test is followed by a final continuation, so a wrongly accepted fragment is completed and delivered. The thorough tier adds 16 atheris processes that fuzz arbitrary frame streams (through a small frame grammar) against the reference reading. A third extension context (offered by the client, declined by the server) runs through the enumeration (6 contexts) and the generated part. Cases may be preceded by an earlier connection in the same process (same WebSocket object or another one) that ended in one of 19 abnormal ways; a fixed battery is run after every such ending. Cases may run with a second live connection in the same process (interleaved at events and after reads, or blocked inside a send). The application may also make calls with unsendable arguments (and catch the error) at drawn events: they must leave no trace. What the violating frame carries may look like a format template (braces, % directives): every class x variant x 5 such payloads is enumerated. Cases may run with DEBUG logging switched on for the library (every record formatted by a handler); the fixed battery is enumerated that way. A scheduled stage (the C11/C12 scheduler; every thread order x every single preemption) lets the event loop meet the violation while another thread closes or sends: at most one Close frame, nothing after it.",
    "C06": "Header spellings include white space around '=' and ';' (RFC 2616 implied LWS), quoting, omitted defaults and parameter order; the 256-configuration battery rotates through six spelling presets. The reference peer also ends messages with a BFINAL block + 0x00 (RFC 7692 7.2.3.4). Cases may be preceded by an earlier connection in the same process (same WebSocket object or another one) that ended in one of 19 abnormal ways; a fixed battery is run after every such ending. Cases may run with a second live connection in the same process (interleaved at events and after reads, or blocked inside a send). The application may also make calls with unsendable arguments (and catch the error) at drawn events: they must leave no trace. A scheduled stage (the deterministic scheduler and oracle of C11; every thread order x every single preemption, and an early first preemption x every second one) runs concurrent compressed senders with and without client_no_context_takeover. Cases may run with DEBUG logging switched on for the library. The header line itself is spelled too: casing of its name, white space around the value, and the value folded over two lines at any of its spaces (five more battery presets).",
    "C07": "Histories may end with EOF, reset or a server that stays connected and silent (then a configured ping/close timeout must end the iteration); a further enumeration injects one failed write (3 positions x 2 kinds) into 2-step histories; three option sets. Endings also include a fatal TLS error / routing failure that every later read repeats (over wss://). Cases may run with a second live connection in the same process (interleaved at events and after reads, or blocked inside a send). The alphabet includes a frame exactly as long as the 64 KiB receive buffer. A further enumeration runs histories through an HTTP proxy that answers 200, refuses, sends garbage, stalls, drops or resets during the CONNECT exchange (ws and wss). Application policies include handlers that take longer than the poll interval; a negative selector timeout blocks like poll() does. A further ender, 'chatter', keeps the connection readable for ever without ever completing a frame (one byte every 0.9 s): the timers must still run. The simulated socket has no descriptor after close() and the selector constructor refuses such a socket, as the real selectors do. The client's clock has a realistic epoch (2**31 s), not zero.",
    "C08": "Close reasons are drawn at the boundary sizes (0, 120-123 bytes, 1-4 byte characters), close codes include 1012/1013, close_timeout is None, 0 (both documented as disabled) or 30 s. Cases may be preceded by an earlier connection in the same process (same WebSocket object or another one) that ended in one of 19 abnormal ways; a fixed battery is run after every such ending. Cases may run with a second live connection in the same process (interleaved at events and after reads, or blocked inside a send). The application may also make calls with unsendable arguments (and catch the error) at drawn events: they must leave no trace. A further mode lets the server's Close cross the application's close() in one read. The write that carries the client's Close (own or echo) may fail without breaking the transport (enumerated x close_timeout x EOF timing x sends): the attempt then stands for the frame and the statement's outcomes are still demanded. Cases may run with DEBUG logging switched on for the library (every record formatted by a handler); the fixed battery is enumerated that way. Cases also run over TLS and with permessage-deflate negotiated (the small battery enumerated x ws/wss x plain/default/non-default parameters).",
    "C09": "Non-fatal write faults are re-run with a server that then stays silent: if the closing handshake had been started the connection must still end by itself (close timeout). On wss:// the TLS handshake of the first j of n addresses fails after a successful TCP connect (reset, EOF, certificate error, timeout), and truncated streams also end in a persistent TLS error. Cases may run with a second live connection in the same process (interleaved at events and after reads, or blocked inside a send). Optionally the connection goes through an HTTP proxy; its answer to CONNECT is then cut at every byte offset. Every injected error text contains characters special to str.format and % formatting. A permessage-deflate dimension lets the application's sends pass through the compressor before a write fails; a fixed battery (plain/deflate x ws/wss x direct/proxy x closing order) is enumerated. Each selector-wait position is also run with that wait and every later one failing (a descriptor gone bad): swallowing the error must not turn into spinning for ever. On the socket of an established connection whose transport had not failed close() must have been CALLED (finalisation of the socket object alone counts only before Connected and after a transport failure, where shutdown() fails and lomond skips close()). Every faulted execution ends with three sends made after the event iterator has ended: they must raise a WebSocketError.",
    "C11": "19 scenarios, incl. client_no_context_takeover and mixed compressed / uncompressed / control senders; three-thread scenarios additionally get a chained second preemption (right after the thread switched to has finished, hand over to the third thread). Six more scenarios use 300-byte and hardly compressible 70 000-150 000-byte payloads racing with small frames. Scheduled runs use the library's own masking-key source. Payloads differ in length and prefix per sender and call, so that a back-reference computed in one sender's private history lands on different bytes in the wire history. For the deflate scenarios an early first preemption (first 24 steps) is combined with every second preemption in both tiers (first-use races). Three more scenarios let the event loop inflate compressed server messages (and answer a Ping) while other threads deflate theirs (default parameters, client_no_context_takeover, both flags). The harness replaces only a real _thread.lock of the session; a write lock the library builds itself stays under test (the shim provides scheduler-aware Lock, RLock and Condition, with timed waits timing out once nothing else can run). A further sweep combines a first preemption inside a locked write with every second preemption (2 x 2 scenario). Three-thread scenarios also get three-preemption chains: a first preemption inside a locked write, hand-over to the third thread when the second blocks, then a third preemption at every later write / lock / condition point. The four-call client_no_context_takeover scenario is part of the early-first x second preemption sweep (quick tier: second preemptions inside the extension's code and at write / lock points; thorough: everywhere). Two content-overlap scenarios: random bytes that deflate cannot shrink against a payload that repeats them. One more three-thread scenario has three compressing senders. For the three-sender scenarios every pair of preemptions at write / lock / condition points is swept under a second resume policy of the scheduler (the most recently preempted thread continues when the running one blocks).",
    "C12": "18 scenarios, incl. three-actor ones (sender, pinger = application ping / the loop's pong / the loop's automatic ping, closer) with a chained second preemption as in C11. Three more scenarios cover the other shapes of a Close frame (server Close without a body echoed by the loop, close() without a code, maximal reason). Four more scenarios race 300-byte and 140 000-150 000-byte frames with an application Close and with the loop's echo of the server's Close. A first preemption inside a locked write x every second preemption is swept for close() against a thread that sends twice. Three-thread scenarios also get the three-preemption chains described under C11 (two waiters queued behind a writer). Two more scenarios: the loop fails the connection for a protocol violation (reserved opcode; invalid UTF-8) while the application closes / sends.",
    "C13": "A fifth mechanism keeps the generator alive while the same WebSocket connects again and drops it afterwards. The socket must have been close()d by the library (finalisation alone counts only after a reset, where lomond skips close()). Cases optionally carry one failing write before the abandonment. Cases may run with a second live connection in the same process (interleaved at events and after reads, or blocked inside a send). Two more mechanisms finalise the generator on ANOTHER thread (gen.close() there, last reference dropped there). Optionally through an HTTP proxy. TLS unwrap() is modelled as fallible I/O (it fails while application data is in flight or when the peer is gone). A scheduled stage (the C11 scheduler; every thread order x every single preemption) lets the consumer call gen.close() at a Text event while one or two other threads are inside send_* on the same connection (also a 70 000-byte compressed frame): the socket must have been close()d when all threads are done, and nothing may dead-lock. Every abandonment point x mechanism is also run after every kind of earlier connection, incl. earlier connections made inside a 'with ws:' block on the same object. A seventh mechanism leaves a with-block by an exception whose text is long, multi-byte and full of format characters.",
    "C14": "A scheduled stage (the C11/C12 scheduler; every thread order x every single preemption) races a sender thread with the event loop answering two Pings while the loop's consumer reacts to each Ping event: each Pong must precede the reaction on the wire. With permessage-deflate negotiated (any parameters) the data messages selected by a mask are sent compressed, so Pings also arrive between compressed fragments. Cases may be preceded by an earlier connection in the same process (same WebSocket object or another one) that ended in one of 19 abnormal ways; a fixed battery is run after every such ending. Cases may run with a second live connection in the same process (interleaved at events and after reads, or blocked inside a send). The application may also make calls with unsendable arguments (and catch the error) at drawn events: they must leave no trace. A protocol-violating frame (9 classes) may follow the conforming stream, also in the same read: every Ping before it must still be answered. Two more scheduled scenarios put a thread calling close() against the loop answering Pings: a Ping handed to the application before any Close frame was written must have been answered. Cases may run with DEBUG logging switched on for the library (every record formatted by a handler); the fixed battery is enumerated that way. Pings before, between and behind messages of 64 KiB and more, delivered in buffer-filling reads, are enumerated with automatic Pongs on and off (plain and deflate).",
    "C03": "The permessage-deflate dimension draws window bits and both no_context_takeover flags; the inflating peer honours them (a fresh inflater per message under client_no_context_takeover). Cases may run with a second live connection in the same process (interleaved at events and after reads, or blocked inside a send). A scheduled stage (C11's scheduler, every thread order x every single preemption) repeats calls of every length class (short, 300 bytes, 70 000-150 000 bytes) while another thread or the event loop writes: each call's frame must be on the wire whole. 15 code points that codecs and text tools treat specially are enumerated alone / doubled / first / middle / last through send_text, send_json and close(). Every class of unpaired surrogate (both halves, boundaries, the PEP 383 range, reversed pairs) is enumerated as unencodable text. Under three deflate configurations every ordered pair of length classes, and every pair around an empty message, is enumerated. Cases may run with DEBUG logging switched on for the library (every record formatted by a handler); the fixed battery is enumerated that way. The socket write of the last call of a case may be interrupted (EINTR / EAGAIN / timeout / transient error), before anything went out or after half of the frame did: a call that returns normally must have put exactly one complete frame on the wire, a call that fails must raise a WebSocketError (enumerated x call kind x length class x plain/deflate). close() with a reason of the wrong type (int, bool, float, None, list, tuple, dict, set x code incl. None) is drawn and enumerated: refused, nothing written, the connection stays usable. Unequal window sizes with payloads that repeat beyond the smaller window are enumerated.",
    "C05": "Cases may be preceded by an earlier connection in the same process (same WebSocket object or another one) that ended in one of 19 abnormal ways; a fixed battery is run after every such ending. Cases may run with a second live connection in the same process (interleaved at events and after reads, or blocked inside a send). The application may also make calls with unsendable arguments (and catch the error) at drawn events: they must leave no trace. The same 15 special code points are enumerated through every carriage (exact decoding). Every frame-length class (125 ... 131072 bytes) is enumerated with valid text, an invalid byte first / middle / last (fail-fast applies to frames of the 64-bit length form too) and a first fragment of that length ending inside a character. Cases may run with DEBUG logging switched on for the library (every record formatted by a handler); the fixed battery is enumerated that way.",
    "C10": "Every spelling dimension (casing, OWS before/after, obs-fold, order) is enumerated for each header with the correct and a wrong digest; server-controlled strings include characters special to string formatting. Cases may be preceded by an earlier connection in the same process (same WebSocket object or another one) that ended in one of 19 abnormal ways; a fixed battery is run after every such ending. Cases may run with a second live connection in the same process (interleaved at events and after reads, or blocked inside a send). URL shapes include credentials and IPv6 literals and are enumerated (scheme x host x port x path/query x userinfo); another application thread may call a send method during the connect phase. Critical headers repeated with different casing and a wrong value (both orders), and malformed status lines (control-character separators, tokens such as +101 / 0101 / 1_0_1) are enumerated. Header blocks of 16378-16390 bytes (terminated or not) are enumerated with a cut at each of the last positions. Accept values, Upgrade values and header names that differ from the required ones only by non-ASCII bytes a text decoder may normalise away (UTF-8 of U+00A0/U+2003/U+3000, bytes A0/85, KELVIN SIGN, U+017F) are enumerated. The fixed battery is also run with DEBUG logging switched on for the library. What the server writes for the accepted extension is spelled too (parameters, white space around ';' and '=', quoted values, a trailing ';', folds): Ready reports the extension by its token.",
    "C15": "After close() the application may call close() again / send at drawn times while the handshake is pending (the grid closes again every second): no deadline may move. Cases may run with a second live connection in the same process (interleaved at events and after reads, or blocked inside a send). auto_pong is drawn too, and arrivals include a frame exactly as long as the receive buffer. The application may also make calls with unsendable arguments (and catch the error) at drawn events: they must leave no trace. The server may start the closing handshake and then never drop the connection: the client's echo is a Close sent by the client, and close_timeout must cut the connection within [c, c + p] after it. The write of the client's Close may take (virtual) time: the deadline counts from when it has gone out, and the oracle treats the event loop as busy meanwhile. A connection on which no closing handshake was started and no ping timeout is due must last until the server's EOF; the grid also runs close() calls that are refused for their arguments. The client's clock has a realistic epoch.",
    "C17": "Previous connections may also be abandoned with the generator kept referenced and finalised only right after the next connect() call or at a drawn event of the next connection (enumerated: 9 abandon points x 7 release points). Previous connections and B negotiate their permessage-deflate parameters independently; the fresh-object reference runs before the chain. Chains may run through an HTTP proxy (an earlier attempt ending inside the proxy's answer; B's answer under its own segmentation; enumerated for every kind of previous ending). Chains may run on an object the application configured before the first connect (custom request headers incl. names the client sends itself, sub-protocols, agent string), enumerated for every kind of previous ending. Chains also run over TLS, and after a previous connection that received a corrupt or a truncated compressed message with B negotiating the same parameters again.",
    "C16": "Long outages (1100 and 2500 consecutive failures, with and without a Ready in the middle) are enumerated; an attempt that ends without a BackOff is reported after 3 surplus attempts. The real driver's consumer may call close() / send_text() at the first Connecting / Connected / Ready / Poll / Text event of an attempt (enumerated for every outcome). Outcomes include rejections carrying Retry-After (seconds and HTTP-date), Location, Refresh and Keep-Alive headers and a Close with code 1013 'try again in 120 s' (every sequence of length 4, both drivers): the delay stays within persist()'s own bounds.",
    "C18": "Frame shapes (empty binary/text, text ended by an empty final fragment) are drawn per frame and enumerated as the last frame of a read; bursts can be padded to exact multiples of the 64 KiB buffer; the TLS model also has a read-ahead variant whose pending() may exceed a record. Cases may run with a second live connection in the same process (interleaved at events and after reads, or blocked inside a send). The application may also make calls with unsendable arguments (and catch the error) at drawn events: they must leave no trace. Large messages also come as text of 2-/3-/4-byte characters shifted so that read, record and fragment boundaries fall inside characters. A protocol-violating frame (5 classes) may follow the last burst in the same arrival: everything complete in front of it must still be delivered and answered. The k-th automatic Pong may fail to be written (timeout / transient error) while more messages have already arrived: they are still delivered in their arrival cycle (enumerated). Pings with non-text payloads may sit between the fragments of fragmented messages (enumerated over the size grid). Cases may run with DEBUG logging switched on for the library. Bursts also run with permessage-deflate negotiated (default and non-default parameters). A scheduled stage (the C11 scheduler; every thread order x every single preemption) gives the event loop the processor while another thread of the same connection sits between the halves of its socket write: what has arrived must be delivered before that write finishes.",
    "C19": "26 reply classes incl. glued / malformed status tokens; an explicit empty mapping is tested with HTTP(S)_PROXY set in the environment. Cases may be preceded by an earlier attempt through the proxy (same or another object; reply complete or cut short; EOF or reset), enumerated for 6 earlier replies x cuts x 5 current replies. Another application thread may call a send method while the connecting thread is blocked in getaddrinfo / connect / recv of the proxy's answer / the TLS handshake (enumerated: op x ordinal x send kind x reply x ws/wss). Target hosts include IPv6 literals. Reply classes include malformed status lines (FS/GS/RS/US separators, +200 / 0200 / 2_0_0). 200 answers of 16378-16390 bytes are enumerated with cuts at the last positions. With an explicit mapping, proxy-related variables of the real process environment (NO_PROXY/no_proxy with '*', the host or suffixes; lower-case http_proxy; ALL_PROXY) are enumerated x mapping kind x target host: the mapping alone decides. An injected recv fault counts against the tunnel iff it struck before the whole answer had been handed over. Proxy credentials with percent-encoded reserved characters (/, ?, #, @, :, %) are enumerated x port x ws/wss. The CONNECT request must carry exactly one Host line, for this target, and no header twice (also after earlier attempts in the same process).",
}

# added in rounds 17+ (appended after EXT)
EXT2 = {
    "C01": "WebSocket() constructor arguments that only shape the upgrade request (agent / protocols / extra headers beyond ASCII and Latin-1) are drawn as well.",
    "C04": "A violating frame that FOLLOWS a valid server Close is enumerated (class x plain/deflate x client closing) under six segmentations: nothing of it is delivered, at most one ProtocolError, and the same verdict under every cut. Every class is also run with the write of the client's own Close failing (reset / EPIPE / timeout / I/O error / arbitrary exception / EINTR / EAGAIN): the violation is still reported once and the connection still ends non-gracefully.",
    "C05": "Text is also carried on connections where permessage-deflate was offered by the client but declined by the server (an uncompressed connection in every respect, fail-fast included).",
    "C06": "The offer may also be written by the application itself with add_header() (header name in any casing, compress=False): the peer accepts it and everything must hold as for compress=True (enumerated x 3 configurations x battery). Empty elements in the comma-separated extension list (before / after the extension) are drawn and part of the spelling presets.",
    "C07": "Constructor arguments that only shape the upgrade request (agent / protocols / extra headers with characters beyond ASCII, Latin-1 and the BMP, very long values) are drawn and enumerated (direct, through a proxy, wss). A real-descriptor stage (socketpair, PollSelector and SelectSelector): the application's handler closes the session at Ready / Poll / Text / Ping and keeps iterating - one terminal event must follow (verdict by counting events, not by the clock).",
    "C08": "Constructor arguments that only shape the upgrade request are drawn as well.",
    "C09": "The documented long-lived iterator persist() is driven over outages of 1100 consecutive attempts that fail in the transport (cannot connect / dropped before the reply / dropped after Ready) with the real client: no exception may leave the iterator. Constructor arguments that only shape the upgrade request are drawn as well.",
    "C10": "The earlier-connection dimension now also applies to the chained runs this check uses (it was inert before round 17), with residues of the earlier connection that look like text lines or a header block.",
    "C12": "Four scenarios start from an application close() issued BEFORE Ready (at Connected): sends and a second close() then race with each other, with the loop's Pong and with the loop's handling of the server's Close.",
    "C13": "Constructor arguments that only shape the upgrade request are drawn as well. Every abandonment when the proxy refuses the tunnel (six kinds of refusal x ws/wss) is enumerated.",
    "C14": "'Has not yet sent a Close frame' is judged from the wire (not from what close() returned); the application may call close() before the opening handshake has finished (drawn; the battery enumerated x auto_pong x segmentation x deflate). connect() options may be passed positionally in the documented order (drawn; enumerated x auto_pong x deflate).",
    "C15": "A scheduled stage (the C11/C12 scheduler; every thread order x every single preemption, 4 scenarios) lets an automatic Ping fall due while another thread is inside a send, holding the write lock with half of its frame on the wire: exactly one automatic Ping must be on the wire afterwards.",
    "C16": "Two more outcomes: every write after the upgrade request fails for good (EPIPE) / times out - wherever the application's or the library's next write comes (at Connected, at Ready, ...).",
    "C19": "Proxy answers of two or three header blocks (100/102/103/101/204/407 first, then 200 or another status) are enumerated under every segmentation class: the answer is the first block, and it is not a 200.",
}
EXT2["C03"] = "The scheduled stage includes two compressing senders: unmasking and inflating in wire order must give back each caller's payload."
EXT2["C11"] = "A non-scheduled enumeration runs a send that takes 12 / 45 / 400 s (a peer that stopped reading; sendall on a socket that still carries a timeout gives up half-way, as a real socket does) followed by other application sends and the loop's Pong, on direct / proxied / TLS connections x 3 sizes: whole frames holding exactly the messages sent."
EXT2["C18"] = "A deterministic socketpair run per platform selector: the peer writes its last frames and is gone at once (POLLIN together with POLLHUP) - all of them are delivered before Disconnected."

PENDING = {}


def main():
    props = [json.loads(l) for l in open(os.path.join(HERE, "properties.jsonl"))]
    checks = []
    na = []
    for p in props:
        pid = p["id"]
        c = CHECKS.get(pid)
        if not c:
            na.append({"property_id": pid, "reason": PENDING.get(pid, "check not built yet (work in progress; see DESIGN.md section 8)")})
            continue
        checks.append({
            "property_id": pid,
            "quick_cmd": "./check %s --tier quick" % pid,
            "thorough_cmd": "./check %s --tier thorough" % pid,
            "evidence_file": "/verif/evidence/%s.json" % pid,
            "replay_cmd_template": "./check %s --replay {path}" % pid,
            "engine": "lomond-simnet-pbt",
            "level_claimed": {"category": c["category"], "text": c["text"] + (" " + EXT[pid] if pid in EXT else "") + (" " + EXT2[pid] if pid in EXT2 else ""),
                              "design_ref": c["design_ref"]},
            "level_note": c["note"],
            "technique": c["technique"],
        })
    man = {
        "version": 1,
        "setup_cmd": "./setup.sh",
        "hooks": {
            "guard": "LOMOND_VERIF",
            "enable": "no source hooks: the harness substitutes lomond's module attributes (socket, ssl, time, os.urandom, "
                      "masking key, selector class) from outside the package at run time",
            "baseline_off_cmd": "cd /repo && /venv/bin/python -m pytest -q -p no:cacheprovider --timeout=900",
            "source_commits": [],
            "add_only": True,
        },
        "engines": [{
            "name": "lomond-simnet-pbt",
            "path": "/verif/harness",
            "serves_properties": sorted(CHECKS),
            "kind_free_text": "Hypothesis property-based testing + bounded exhaustive enumeration of the real client over a "
                              "simulated transport / virtual clock / deterministic thread scheduler, with independent reference oracles",
        }],
        "checks": checks,
        "notes": "All checks: ./check <ID> --tier quick|thorough; VERIF_SEED and VERIF_TIER honoured; exit 0/1/2 = held / "
                 "VIOLATION / harness error. Known findings: /verif/known_findings.json.",
        "not_applicable": na,
    }
    with open(os.path.join(HERE, "MANIFEST.json"), "w") as fh:
        json.dump(man, fh, indent=1)
        fh.write("\n")
    try:
        import jsonschema
        jsonschema.validate(man, json.load(open("/root/.vp/MANIFEST.schema.json")))
        print("MANIFEST.json valid; %d checks, %d not_applicable" % (len(checks), len(na)))
    except ImportError:
        print("written (jsonschema not available for validation)")


if __name__ == "__main__":
    main()
