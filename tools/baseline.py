#!/usr/bin/env python3
"""Run the repository's test suite (guard off - there are no hooks) and compare the
set of passing tests with /root/.vp/BASELINE.json's stable_pass."""
import json, subprocess, sys, tempfile, os, xml.etree.ElementTree as ET
repo = sys.argv[1] if len(sys.argv) > 1 else "/repo"
base = json.load(open("/root/.vp/BASELINE.json"))
with tempfile.TemporaryDirectory() as d:
    x = os.path.join(d, "j.xml")
    cmd = ["/venv/bin/python", "-m", "pytest", "-q", "-p", "no:cacheprovider", "--timeout=900",
           "--continue-on-collection-errors", "--junitxml=" + x]
    # tests/test_integration.py binds the fixed port 8080: give each run a private network namespace when
    # the sandbox allows it, so that concurrent runs of the suite cannot disturb each other
    import shutil
    if shutil.which("unshare") and subprocess.run(["unshare", "-rn", "true"], stdout=subprocess.DEVNULL,
                                                  stderr=subprocess.DEVNULL).returncode == 0:
        import shlex
        cmd = ["unshare", "-rn", "sh", "-c", "ip link set lo up; exec " + " ".join(shlex.quote(c) for c in cmd)]
    subprocess.run(cmd, cwd=repo, stdout=subprocess.DEVNULL, stderr=subprocess.DEVNULL,
                   env=dict(os.environ, PYTHONPATH=repo))
    passed = set()
    for tc in ET.parse(x).getroot().iter("testcase"):
        if not any(c.tag in ("failure", "error", "skipped") for c in tc):
            passed.add("%s::%s" % (tc.get("classname"), tc.get("name")))
want = set(base["stable_pass"])
missing = sorted(want - passed)
print("baseline stable_pass=%d, passing now=%d, missing=%d" % (len(want), len(passed), len(missing)))
for m in missing[:20]:
    print("  MISSING", m)
sys.exit(1 if missing else 0)
