"""C09 - transport failures become events, never exceptions or hangs."""
import copy

from hypothesis import strategies as st

from harness import build, gen, simnet, wire, httpref, deflateref
from harness.runner import Prop, held, failed
from props.c07 import monitor

SEND_FAULTS = ("reset", "timeout", "exc")
RECV_FAULTS = ("reset", "timeout", "exc")
WAIT_FAULTS = ("oserror", "exc")


PROXY_200 = b"HTTP/1.1 200 Connection established\r\nVia: 1.1 p\r\n\r\n"


def base_script(case, stream_override=None, end_override=None, silent=False, proxy_override=None):
    pre = build.build_session(case["msgs"])
    post = build.build_session(case["msgs2"])
    script = [["wait_request"]]
    if case.get("proxy"):
        # the connection is made through an HTTP proxy: CONNECT, the proxy's answer, then the handshake proper
        if proxy_override is not None:
            if proxy_override[0]:
                script.append(["stream", [["bytes", proxy_override[0]]], "whole", 0.0])
            script.append(end_step(proxy_override[1], 0.0))
            return script, pre, post
        script += [["stream", [["bytes", PROXY_200]], case["seg"], 0.0], ["wait_requests", 2]]
    if stream_override is not None:
        script.append(["stream", [["bytes", stream_override]], "whole", 0.0])
        script.append(end_step(end_override, 0.0))
        return script, pre, post
    script.append(["stream", [["reply", reply_of(case)], ["bytes", bytes(pre.data)]], case["seg"], 0.0])
    if case["idle"]:
        script.append(["pause", 2.5])
    if case["server_close"]:
        post2 = build.build_session(case["msgs2"] + [{"kind": "close", "code": 1000, "reason": "srv"}])
        script.append(["stream", [["bytes", bytes(post2.data)]], "whole", 0.0])
    else:
        script.append(["stream", [["bytes", bytes(post.data)]], "whole", 0.0])
    if not silent:
        script.append(end_step(case["end"], 0.5))
    return script, pre, post


def reply_of(case):
    """permessage-deflate negotiated (the application's messages then go through the compressor before they are
    written; the server's stay uncompressed, which the extension allows)"""
    if case.get("deflate"):
        return httpref.canonical_spec(extensions=[deflateref.header_of(case["deflate"])])
    return None


# how a transport ends: the peer's FIN, or a failure that every later read reports again
END_KINDS = ("eof", "reset", "io_error", "tls_error", "tls_eof")


def end_step(end, dt):
    if end in ("eof", "reset"):
        return [end, dt]
    return ["reset", dt, end]


def base_scenario(case, faults=None, addrs=None, resolve=None, stream_override=None, end_override=None, silent=False,
                  proxy_override=None):
    script, pre, post = base_script(case, stream_override, end_override, silent, proxy_override)
    reactions = copy.deepcopy(case["sends"])
    if case["client_close"] is not None:
        reactions.append({"when": ["msg", case["client_close"]], "do": [["close", 1000, "cli"]]})
    att = {}
    if faults:
        att["faults"] = faults
    if addrs is not None:
        att["addrs"] = addrs
    if resolve:
        att["resolve"] = resolve
    copts = {"poll": 1.0, "ping_rate": 1.0 if case["idle"] else 0, "close_timeout": 5.0}
    kw = {"url": "wss://example.test/"} if case.get("tls") else {}
    if case.get("proxy"):
        kw["ws_opts"] = {"proxies": {"http": "http://proxy.test:3128", "https": "http://proxy.test:3128"}}
    if case.get("deflate"):
        kw.setdefault("ws_opts", {})["compress"] = True
    return build.scenario(script, reactions=reactions, connect_opts=copts, attempt_extra=att,
                          horizon=300.0 if silent else 2000.0, **kw)


class C09(Prop):
    id = "C09"
    level = "fault_enumeration"
    rule = ("for each generated base scenario (messages, pings with auto-pong, idle period with automatic pings, application "
            "sends, optional closing handshake from either side) the fault-free run records every socket operation; the scenario "
            "is then re-run once per (operation, fault): resolver error; connect refused on the first j of n addresses (all n and "
            "fewer); every sendall x {reset, timeout, arbitrary exception}; every recv x {reset, timeout, arbitrary exception}; "
            "the stream truncated at every byte offset (every offset up to 400 bytes, structure boundaries beyond) followed by EOF "
            "and by reset (on wss:// also by a fatal TLS error that every later read repeats); optionally the connection goes through an HTTP proxy, whose answer to CONNECT is then also cut at every byte offset; "
            "every selector wait x {OSError, arbitrary exception}; shutdown/close raising. Oracle: nothing escapes "
            "next(), no hang, ConnectFail before Connected else Disconnected, graceful=False when no Close frame was ever sent or "
            "received, every socket released, application send errors are WebSocketError, C07 grammar. Non-trivial = fault strictly "
            "after Ready, or inside a frame, or on a library-initiated write. Each faulted execution counts as one evaluation.")
    assumptions = ("'released' = close() called on the socket or the socket object finalised (what frees a real descriptor)",
                   "after ECONNRESET the simulated socket behaves like Linux: later I/O fails, shutdown() raises ENOTCONN")
    examples = {"quick": 160, "thorough": 3200}

    def strategy(self, tier):
        small = gen.weighted([(3, gen.data_msg(big=False)), (3, gen.control_msg(("ping",))), (1, gen.control_msg(("pong",)))])
        sends = st.lists(st.fixed_dictionaries({
            "when": st.one_of(st.just(["event", "ready", 0]), st.tuples(st.just("msg"), st.integers(0, 5)).map(list),
                              st.just(["event", "poll", None]), st.just(["event", "disconnected", 0])),
            "do": st.lists(st.sampled_from([["send_text", "app"], ["send_binary", "aa"], ["ping", "70"]]),
                           min_size=1, max_size=2)}), max_size=2)
        return st.fixed_dictionaries({
            "msgs": st.lists(small, max_size=4),
            "msgs2": st.lists(small, max_size=2),
            "idle": st.booleans(),
            "sends": sends,
            "client_close": st.one_of(st.none(), st.none(), st.integers(0, 3)),
            "server_close": gen.weighted([(3, st.just(False)), (1, st.just(True))]),
            "end": st.sampled_from(["eof", "eof", "reset", "io_error", "tls_error", "tls_eof"]),
            "seg": st.sampled_from(["whole", "whole", ["uniform", 7], ["uniform", 50]]),
            "naddrs": st.integers(1, 4),
            # wss:// - the socket is TLS-wrapped; the handshake of an address can fail after its TCP connect
            # succeeded, and a failed transport reports TLS errors
            "tls": gen.weighted([(2, st.just(False)), (1, st.just(True))]),
            # through an HTTP proxy (CONNECT): every fault can then also hit the exchange with the proxy
            "proxy": gen.weighted([(3, st.just(False)), (1, st.just(True))]),
            # permessage-deflate negotiated: what the application sends passes through the compressor first
            "deflate": gen.deflate_opt(),
            # an earlier connection in this process (same WebSocket object or another) and how it ended
            "prelude": gen.prelude(6),
            # constructor arguments that only shape the upgrade request
            "wsopts_noise": gen.wsopts_noise(),
            # a second live connection in the same process (interleaved with this one, or blocked in a send)
            "companion": gen.companion(15),
        })

    def enumerations(self, tier):
        # a fixed battery (what a detection depends on is not left to the draws): application sends of both kinds and a
        # ping, automatic pings and pongs, either closing order; plain / deflate x ws / wss x direct / proxy
        ping = {"kind": "ping", "payload": ["hex", "7071"], "forms": [0]}
        text = {"kind": "text", "payload": ["str", "srv \u20ac"], "forms": [0]}

        def battery():
            for deflate in (False, True, {"sb": 9, "cb": 9, "snct": True, "cnct": True}):
                for tls in (False, True):
                    for proxy in (False, True):
                        for client_close, server_close in ((None, False), (1, False), (None, True)):
                            yield {"msgs": [text, ping], "msgs2": [text], "idle": True,
                                   "sends": [{"when": ["event", "ready", 0], "do": [["send_text", "app"], ["ping", "70"]]},
                                             {"when": ["msg", 1], "do": [["send_binary", "aa"]]}],
                                   "client_close": client_close, "server_close": server_close, "end": "eof", "seg": "whole",
                                   "naddrs": 2, "tls": tls, "proxy": proxy, "deflate": deflate}
        from harness.runner import Enumeration

        def outages():
            # the documented long-lived iterator, persist(), over a long outage: more than a thousand consecutive attempts
            # that fail in the transport (cannot connect / dropped before the reply / dropped after Ready), real client
            # over the simulated transport - none of them may come out of the iterator as an exception
            for outcome in ("connect_fail", "drop_before_ready", "drop_after_ready"):
                for (lo, hi) in ((5, 30), (0, 0)):
                    n = 1100
                    yield {"persist_outage": {"min_wait": lo, "max_wait": hi, "outcomes": [outcome] * n, "us": [0.75] * n,
                                              "actions": None, "exit_at": None, "poll": 5, "ping_rate": 30,
                                              "ping_timeout": None, "driver": "real", "default_event": False}}
        return [Enumeration("fixed_battery_x_deflate_tls_proxy", battery, exhaustive=True),
                Enumeration("transport_failures_through_persist_over_a_long_outage", outages, exhaustive=True)]

    # ------------------------------------------------------------------
    def judge(self, tr, what, fault_before_connected):
        """Returns (signature, detail) or None."""
        bad = monitor(tr)
        if bad:
            return bad[0], "%s: %s" % (what, bad[1])
        names = tr.names()
        last = tr.events[-1]
        injected = {}
        for att in tr.sim.scn.get("attempts", []):
            injected.update(att.get("faults") or {})
        no_close_expected = "shutdown" in injected or "close" in injected      # shutdown()/close() itself was made to fail
        if fault_before_connected and last["name"] != "connect_fail":
            return "wrong_terminal_event", "%s: expected ConnectFail, events %s" % (what, names)
        if "connected" in names and last["name"] != "disconnected":
            return "wrong_terminal_event", "%s: expected Disconnected, events %s" % (what, names)
        # graceful only if some Close frame travelled in either direction
        if last["name"] == "disconnected" and last.get("graceful") is not False:
            sim = tr.sim
            # a Close frame the client *tried* to write counts as having started the closing
            # handshake (the statement only fixes graceful=False when neither side started it)
            client_close = False
            for e in sim.log:
                if e[0] in ("send", "send_fail") and not e[2].startswith(b"GET "):
                    frames, _ = wire.decode_frames(e[2])
                    client_close = client_close or any(f.opcode == wire.CLOSE for f in frames)
            server_close = any(e["name"] in ("closing", "closed") for e in tr.events)
            if not client_close and not server_close:
                return "graceful_after_failure", "%s: Disconnected(graceful=%r) although no Close frame was ever sent " \
                    "or received; events %s" % (what, last.get("graceful"), names)
        for st0 in tr.sim.socks:
            if not st0.released:
                return "socket_not_released", "%s: socket %d (address %d) neither closed nor finalised; events %s" % (
                    what, st0.sid, st0.addr_index, names)
            # "the socket is closed": close() must have been CALLED; finalisation of the socket object alone counts only
            # where close() cannot be reached the documented way (after a transport failure shutdown() fails with
            # ENOTCONN and lomond skips close(); a socket that never connected; a shutdown()/close() made to fail)
            # (judged for the socket of an established connection - before Connected a socket that fails is dropped)
            if "connected" in names and st0 is tr.sim.socks[-1] and not st0.closed and st0.connected and not st0.broken \
                    and not no_close_expected:
                return "socket_not_closed", "%s: socket %d was still usable but close() was never called on it (shutdown "                     "called: %s); events %s" % (what, st0.sid, st0.shutdown_called, names)
        for rec in tr.actions:
            if rec["result"] != "ok" and "WebSocketError" not in rec.get("mro", []):
                return "send_raised_non_websocket_error", "%s: %s raised %s: %s" % (
                    what, rec["action"], rec["result"], rec.get("msg"))
        # ... also a send made AFTER the event iterator has ended (a thread that has not heard of the failure yet)
        ws = getattr(tr, "ws", None)
        if ws is not None and tr.ended == "stop":
            from lomond.errors import WebSocketError
            for late in (lambda: ws.send_text("after the end"), lambda: ws.send_binary(b"after the end"),
                         lambda: ws.send_ping(b"late")):
                try:
                    late()
                except WebSocketError:
                    continue
                except simnet.HarnessSignal:
                    break
                except Exception as error:
                    return "send_raised_non_websocket_error", "%s: a send after the iterator had ended raised %s: %s" % (
                        what, type(error).__name__, error)
                else:
                    return "late_send_accepted", "%s: a send after the iterator had ended was accepted" % what
        return None

    def run_case(self, case):
        if "persist_outage" in case:
            from props import c16
            inner = case["persist_outage"]
            labels = {"through_persist:" + inner["outcomes"][0]}
            res = c16.PROP.run_case(inner)
            # only what this property says: no exception out of the iterator, no hang (back-off arithmetic and the
            # grammar of persist() are C16's business)
            if not res.ok and res.signature in ("escaped_exception", "hang", "no_progress", "persist_ended_by_itself"):
                return failed(res.signature, "persist() over %d consecutive attempts ending in %s: %s" % (
                    len(inner["outcomes"]), inner["outcomes"][0], res.detail), labels, True)
            return held(labels, True)
        labels = set()
        sub = []
        base = simnet.run_scenario(base_scenario(case))
        bad = self.judge(base, "fault-free run", False)
        if bad:
            return failed(bad[0], bad[1], labels, False)
        sim0 = base.sim
        ready_t = None
        n_send = sum(1 for e in sim0.log if e[0] in ("send", "send_fail"))
        n_recv = sum(1 for e in sim0.log if e[0] in ("recv", "recv_eof", "recv_fail"))
        n_wait = len(sim0.wait_log)
        # which sends are library-initiated (request, pong, ping, close echo)
        send_entries = [e for e in sim0.log if e[0] == "send"]
        names0 = base.names()
        ready_idx = names0.index("ready") if "ready" in names0 else None
        connected_idx = names0.index("connected") if "connected" in names0 else len(names0)
        all_sends = [e for e in sim0.log if e[0] in ("send", "send_fail")]
        all_recvs = [e for e in sim0.log if e[0] in ("recv", "recv_eof", "recv_fail")]

        def before_connected_op(entries, k):
            # the k-th such call of the fault-free run happened before the Connected event was yielded
            return k < len(entries) and entries[k][5] < connected_idx

        def run(what, key, nontrivial, before_connected=False, **kw):
            tr = simnet.run_scenario(base_scenario(case, **kw))
            sub.append((key, nontrivial))
            bad = self.judge(tr, what, before_connected)
            del tr
            return bad

        # 1. resolver
        for res in ("gaierror", "exc"):
            bad = run("getaddrinfo raises (%s)" % res, "resolve:" + res, False, True, resolve=res)
            labels.add("fault:resolve")
            if bad:
                return failed(bad[0], bad[1], labels, False, sub)
        # 2. address list: first j of n refused / timing out / socket() failing
        n = case["naddrs"]
        for how in ("refused", "timeout", "sockerr", "unreach"):
            for j in range(1, n + 1):
                addrs = [{"connect": how, "family": "inet6" if i % 2 else "inet"} for i in range(j)] + \
                        [{"connect": "ok"} for _ in range(n - j)]
                tr = simnet.run_scenario(base_scenario(case, addrs=addrs))
                sub.append(("addrs:%s:%d/%d" % (how, j, n), False))
                labels.add("fault:connect_" + how)
                what = "connect %s on the first %d of %d addresses" % (how, j, n)
                bad = self.judge(tr, what, j == n)
                if not bad:
                    tried = sum(1 for e in tr.sim.log if e[0] in ("connect", "socket_fail"))
                    want = n if j == n else j + 1
                    if tried != want:
                        bad = ("addresses_not_all_tried", "%s: %d addresses tried, expected %d" % (what, tried, want))
                    elif j < n and "connected" not in tr.names():
                        bad = ("addresses_not_all_tried", "%s: a later address accepts but no Connected: %s" % (
                            what, tr.names()))
                if bad:
                    return failed(bad[0], bad[1], labels, False, sub)
        # 2b. TLS: the TCP connect of the first j addresses succeeds but their TLS handshake fails
        if case.get("tls") and not case.get("proxy"):     # (through a proxy TLS starts on the established tunnel)
            for how in ("reset", "eof", "cert", "timeout"):
                for j in range(1, n + 1):
                    addrs = [{"connect": "ok", "tls": how} for i in range(j)] + [{"connect": "ok"} for _ in range(n - j)]
                    tr = simnet.run_scenario(base_scenario(case, addrs=addrs))
                    sub.append(("addrs:tls_%s:%d/%d" % (how, j, n), False))
                    labels.add("fault:tls_handshake_" + how)
                    what = "TLS handshake fails (%s) on the first %d of %d addresses" % (how, j, n)
                    bad = self.judge(tr, what, j == n)
                    if not bad:
                        tried = sum(1 for e in tr.sim.log if e[0] == "connect")
                        want = n if j == n else j + 1
                        if tried != want:
                            bad = ("addresses_not_all_tried", "%s: %d addresses tried, expected %d" % (what, tried, want))
                        elif j < n and "connected" not in tr.names():
                            bad = ("addresses_not_all_tried", "%s: a later address completes the handshake but no "
                                   "Connected: %s" % (what, tr.names()))
                    if bad:
                        return failed(bad[0], bad[1], labels, False, sub)
        # 3. every sendall
        for k in range(n_send):
            lib = k < len(send_entries) and send_entries[k][4] == "lib"
            after_ready = ready_idx is not None and k < len(send_entries) and send_entries[k][5] >= ready_idx
            for f in SEND_FAULTS:
                labels.add("fault:send_" + f)
                if lib and k > 0:
                    labels.add("fault:library_write")
                bad = run("sendall #%d raises %s" % (k, f), "send:%d:%s" % (k, f), lib or after_ready,
                          before_connected=before_connected_op(all_sends, k), faults={"send": {str(k): f}})
                if bad:
                    return failed(bad[0], bad[1], labels, True, sub)
        # 3b. "never leaves it waiting forever": a write fails WITHOUT breaking the transport
        # (timeout / arbitrary exception) and the server then stays connected but silent.  When
        # the closing handshake had been started (close_timeout = 5 s here) the connection must
        # still end by itself; otherwise staying connected is legitimate.
        if case["client_close"] is not None or case["server_close"]:
            for k in range(1, n_send):
                for f in ("timeout", "exc"):
                    tr = simnet.run_scenario(base_scenario(case, faults={"send": {str(k): f}}, silent=True))
                    sub.append(("silent:%d:%s" % (k, f), True))
                    labels.add("fault:send_then_silence")
                    closing_started = False
                    for e in tr.sim.log:
                        if e[0] in ("send", "send_fail") and not e[2].startswith(b"GET "):
                            frames, _ = wire.decode_frames(e[2])
                            closing_started = closing_started or any(fr.opcode == wire.CLOSE for fr in frames)
                    if tr.escaped:
                        return failed("escaped_exception", tr.escaped, labels, True, sub)
                    if tr.hang:
                        return failed("hang", tr.hang, labels, True, sub)
                    if tr.horizon and closing_started and "ready" in tr.names():
                        return failed("waits_forever_after_failed_write",
                                      "sendall #%d failed with %s, the server stayed silent; the client had started the "
                                      "closing handshake (close_timeout=5s) but was still iterating at virtual time %s; "
                                      "last events %s" % (k, f, tr.sim.now, tr.names()[-5:]), labels, True, sub)
        # 4. every recv
        recv_points = list(range(n_recv + 1))
        if len(recv_points) > 80:
            # cost bound for finely segmented streams: the first and last 25 reads and every k-th between
            step = max(1, len(recv_points) // 30)
            recv_points = sorted(set(recv_points[:25] + recv_points[-25:] + recv_points[::step]))
            labels.add("recv_faults_sampled")
        for k in recv_points:
            for f in RECV_FAULTS:
                labels.add("fault:recv_" + f)
                bad = run("recv #%d raises %s" % (k, f), "recv:%d:%s" % (k, f), k > 0,
                          before_connected=before_connected_op(all_recvs, k), faults={"recv": {str(k): f}})
                if bad:
                    return failed(bad[0], bad[1], labels, True, sub)
        # 5. every selector wait
        for k in range(min(n_wait, 40) + 1):
            for f in WAIT_FAULTS:
                labels.add("fault:wait_" + f)
                bad = run("selector wait #%d raises %s" % (k, f), "wait:%d:%s" % (k, f), k > 0,
                          faults={"wait": {str(k): f}})
                if bad:
                    return failed(bad[0], bad[1], labels, True, sub)
                # ... and every later wait as well (a descriptor gone bad does not recover): carrying on as if
                # nothing had been readable must not turn into waiting for ever
                bad = run("selector wait #%d and every later one raise %s" % (k, f), "wait_from:%d:%s" % (k, f), k > 0,
                          faults={"wait_from": [k, f]})
                if bad:
                    return failed(bad[0], bad[1], labels, True, sub)
        # 6. shutdown / close raising
        for op in ("shutdown", "close"):
            for f in ("oserror", "exc"):
                labels.add("fault:" + op)
                bad = run("%s() raises %s" % (op, f), "%s:%s" % (op, f), True, faults={op: {"0": f}})
                if bad and bad[0] == "socket_not_released" and op == "close":
                    bad = None   # close() itself was made to fail: nothing more the client can do
                if bad:
                    return failed(bad[0], bad[1], labels, True, sub)
        # 6b. through a proxy: its answer cut at every byte offset, then EOF / reset
        if case.get("proxy"):
            for k in range(0, len(PROXY_200)):
                for end in ("eof", "reset"):
                    labels.add("fault:proxy_reply_truncated_" + end)
                    bad = run("proxy reply cut after %d of %d bytes then %s" % (k, len(PROXY_200), end),
                              "pcut:%d:%s" % (k, end), True, before_connected=True,
                              proxy_override=(PROXY_200[:k], end))
                    if bad:
                        return failed(bad[0], bad[1], labels, True, sub)
        # 7. truncation at every byte offset, then EOF / reset
        reply = httpref.build_reply(reply_of(case), sim0.socks[-1].request)
        pre = build.build_session(case["msgs"])
        stream = reply + bytes(pre.data)
        if len(stream) <= 400:
            offsets = range(0, len(stream) + 1)
        else:
            marks = {0, len(stream)}
            for s, e, what in pre.regions:
                for d in (-1, 0, 1):
                    marks.add(len(reply) + s + d)
                    marks.add(len(reply) + e + d)
            marks |= set(range(0, len(reply) + 1))
            marks |= set(range(0, len(stream), 37))
            offsets = sorted(m for m in marks if 0 <= m <= len(stream))
        inside = set()
        for s, e, what in pre.regions:
            inside |= set(range(len(reply) + s + 1, len(reply) + e))
        for k in offsets:
            for end in (("eof", "reset", "tls_error") if case.get("tls") else ("eof", "reset")):
                labels.add("fault:truncate_" + end)
                bad = run("stream cut after %d of %d bytes then %s" % (k, len(stream), end),
                          "cut:%d:%s" % (k, end), k > len(reply) or k in inside,
                          stream_override=stream[:k], end_override=end)
                if bad:
                    return failed(bad[0], bad[1], labels, True, sub)
        labels.add(("fault_runs", len(sub)))
        return held(labels, False, sub)


PROP = C09()
