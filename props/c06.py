"""C06 - permessage-deflate is lossless both ways for every negotiated configuration."""
import zlib

from hypothesis import strategies as st

from harness import boot, build, gen, simnet, wire, httpref, deflateref, utf8ref
from harness.runner import Prop, Enumeration, held, failed
from props.c01 import effective_seg, compare_events
from props.c08 import client_frames

B = wire.build_frame


extension_header = deflateref.extension_header


def payload_bytes(spec, history):
    if spec[0] == "same":
        if history:
            return history[spec[1] % len(history)]
        return b"first message of its direction " * 3
    if spec[0] == "cat":
        # earlier message + fresh tail: back-references across messages
        base = history[spec[1] % len(history)] if history else b""
        return base[: spec[2]] + build.expand(spec[3])
    return build.expand(spec)


def spelled_reply(cfg, sp):
    """The handshake reply with the extension parameters AND the header line spelled as the spelling says."""
    sp = sp or {}
    reply = httpref.canonical_spec(extensions=[extension_header(cfg, sp)])
    name, value = reply["headers"][-1][0], reply["headers"][-1][1]
    name = [name, name.lower(), name.upper(), name.swapcase()][sp.get("name", 0) % 4]
    opts = {"pre": sp.get("pre", " "), "post": sp.get("post", "")}
    if sp.get("fold") is not None and " " in value:
        opts["folds"] = [sp["fold"]]
    reply["headers"][-1] = [name, value, opts]
    return reply


# an offer the application writes itself (HTTP header names are case-insensitive)
OFFER_HEADERS = [(b"Sec-WebSocket-Extensions", b"permessage-deflate; client_max_window_bits"),
                 (b"sec-websocket-extensions", b"permessage-deflate"),
                 (b"SEC-WEBSOCKET-EXTENSIONS", b"permessage-deflate; server_max_window_bits=10; client_max_window_bits=9"),
                 (b"Sec-Websocket-Extensions", b"x-webkit-deflate-frame, permessage-deflate; client_no_context_takeover")]


class C06(Prop):
    id = "C06"
    level = "exploration"
    rule = ("negotiated server_max_window_bits x client_max_window_bits in 8..15 x both no_context_takeover flags (all 256 "
            "combinations with a fixed battery of histories; random ones with random histories), the extension header spelled "
            "with varying parameter order / whitespace / quoting / omitted defaults; histories of 1-10 steps: client sends "
            "(text/binary, compress True/False/default) and server sends (compressed or not, fragmented over the compressed "
            "bytes incl. empty fragments, control frames interleaved, sync/full flushes mid-message, levels 0-9, messages ended by a BFINAL block + 0x00 as in RFC 7692 7.2.3.4); payloads empty / "
            "incompressible / repetitive / repeats and extensions of earlier messages of the same direction / longer than the "
            "window / > 64 KiB. Oracle: an independent RFC 7692 peer (harness/deflateref.py) that honours the negotiated windows "
            "(inflating in 1-byte output steps) over the whole history. Also: without negotiation RSV1 is never set; invalid "
            "parameters are Rejected; randomly damaged compressed bytes give the reference inflater's content or a ProtocolError. "
            "Non-trivial = >= 2 compressed messages in one direction with context takeover, or a compressed message in >= 2 "
            "frames, or a window < 15 bits.")
    assumptions = ("DEFLATE itself is zlib on both sides (lomond delegates to it too); the extension logic of the peer is independent",
                   "zlib's 9-bit deflate window never produces distances above 250, so it is a legal 8-bit peer")
    examples = {"quick": 2500, "thorough": 50000}

    # ------------------------------------------------------------------
    def strategy(self, tier):
        bits = st.integers(8, 15)
        cfg = st.fixed_dictionaries({"sb": bits, "cb": bits, "snct": st.booleans(), "cnct": st.booleans()})
        sp = st.fixed_dictionaries({
            "order": st.integers(0, 30), "quote": st.booleans(), "omit_default": st.booleans(),
            "semi_l": st.sampled_from(["", " ", "\t"]), "semi_r": st.sampled_from(["", " ", "  "]),
            # RFC 6455 takes its ABNF from RFC 2616: linear white space may surround "=" and ";"
            "eq_l": st.sampled_from(["", "", " ", "\t"]), "eq_r": st.sampled_from(["", "", " "]),
            # the header line itself: casing of its name, white space around the value, and the value folded over two
            # lines (obs-fold) at one of its spaces
            "name": st.sampled_from([0, 0, 1, 2, 3]), "fold": st.one_of(st.none(), st.none(), st.integers(0, 5)),
            "pre": st.sampled_from([" ", " ", "", "\t", "  "]), "post": st.sampled_from(["", "", " ", "\t"]),
            # empty elements in the comma-separated list (before / after the extension)
            "list": st.sampled_from([0, 0, 0, 1, 2, 3, 4]),
        })
        sized = st.one_of(
            st.tuples(st.sampled_from(["rand", "rep"]), gen.weighted([
                (5, st.integers(0, 300)), (3, st.sampled_from([0, 1, 255, 256, 257, 511, 512, 513, 1024, 4096, 33000])),
                (1, st.integers(60000, 70000))]), gen.seeds).map(list),
            st.binary(max_size=30).map(lambda b: ["hex", b.hex()]))
        payload = gen.weighted([
            (5, sized),
            (2, st.tuples(st.just("same"), st.integers(0, 9)).map(list)),
            (2, st.tuples(st.just("cat"), st.integers(0, 9), st.integers(0, 5000), sized).map(list)),
        ])
        cstep = st.fixed_dictionaries({
            "dir": st.just("c"), "kind": st.sampled_from(["text", "binary"]), "payload": payload,
            "compress": st.sampled_from([None, True, True, False]),
            "at": st.one_of(st.just("ready"), st.integers(0, 6)),
        })
        sstep = st.fixed_dictionaries({
            "dir": st.just("s"), "kind": st.sampled_from(["text", "binary"]), "payload": payload,
            "compressed": gen.weighted([(4, st.just(True)), (1, st.just(False))]),
            "frag": gen.frag_cuts(max_pos=4000),
            "inter": st.lists(st.tuples(st.integers(0, 8), st.sampled_from(["ping", "pong"])).map(list), max_size=2),
            "flush": st.lists(st.integers(1, 3000), max_size=2), "full_flush": st.booleans(),
            "level": st.sampled_from([-1, -1, 0, 1, 6, 9]),
            # the message ends with a BFINAL block + 0x00 (RFC 7692 7.2.3.4)
            "final": gen.weighted([(5, st.just(False)), (1, st.just(True))]),
        })
        return st.fixed_dictionaries({
            "cfg": cfg, "spelling": sp,
            "steps": st.lists(st.one_of(cstep, sstep), min_size=1, max_size=10),
            "negotiated": gen.weighted([(7, st.just(True)), (1, st.just(False))]),
            # who wrote the offer: the library (compress=True) or the application itself, with add_header() - the only way
            # to ask for particular parameters - in any spelling of the header name
            "offer": gen.weighted([(6, st.none()), (1, st.integers(0, len(OFFER_HEADERS) - 1))]),
            "damage": st.one_of(st.none(), st.none(), st.none(),
                                st.tuples(st.integers(0, 9), st.integers(0, 4000), st.integers(1, 255)).map(list)),
            "seg": gen.segmentation(),
            # an earlier connection in this process (same WebSocket object or another) and how it ended
            "prelude": gen.prelude(),
            # a second live connection in the same process (interleaved with this one, or blocked in a send)
            "companion": gen.companion(),
            # calls with unsendable arguments that the application tries (and whose error it catches) on the way
            "noise_calls": gen.noise_calls(),
            # the application has switched on DEBUG logging for the library
            "debug_log": gen.debug_log(),
            # connect() options that must not matter here
            "copts_noise": gen.copts_noise(("poll", "ping_timeout", "close_timeout",)),
        })

    def enumerations(self, tier):
        def battery():
            for sb in range(8, 16):
                for cb in range(8, 16):
                    for snct in (False, True):
                        for cnct in (False, True):
                            cfg = {"sb": sb, "cb": cb, "snct": snct, "cnct": cnct}
                            for h in range(len(self.BATTERY)):
                                yield {"cfg": cfg, "battery": h}

        def own_offer():
            # the battery (a few configurations) with the offer written by the application
            for k in range(len(OFFER_HEADERS)):
                for cfg in ({"sb": 15, "cb": 15, "snct": False, "cnct": False}, {"sb": 10, "cb": 9, "snct": False, "cnct": True},
                            {"sb": 9, "cb": 12, "snct": True, "cnct": False}):
                    for h in range(len(self.BATTERY)):
                        yield {"cfg": cfg, "battery": h, "offer": k}

        def invalid():
            for key in ("server_max_window_bits", "client_max_window_bits"):
                for val in ("7", "16", "0", "-8", "abc", "", "15.0", "1e1", "99999999999999999999", "{0}", "%s", "{x!r}"):
                    yield {"invalid": "permessage-deflate; %s=%s" % (key, val)}
        # "every message the client sends compressed is restored exactly" also when SEVERAL threads send: a scheduled
        # stage (the deterministic scheduler and oracle of C11; every thread order x every single preemption, plus an
        # early first preemption x every second one) with and without client_no_context_takeover
        from props import c11

        class _Sched(c11.C11):
            id = "C06"

            def scenarios(self_inner):
                names = ("2x1_text_deflate", "2x1_text_deflate_nct", "2x2_deflate_nct", "2x1_text_binary_deflate",
                         "mixed_compress_flags")
                return {n: c11.SCENARIOS[n] for n in names}

            def bound2(self_inner):
                return []

            def first_use(self_inner):
                return ["2x1_text_deflate_nct"]
        self._sched = _Sched()

        def scheduled(i):
            def make():
                for c in self._sched.enumerations(tier)[i].make():
                    yield dict(c, sched=True)
            return make
        return [Enumeration("all_256_configurations_x_battery", battery, exhaustive=True),
                Enumeration("invalid_parameters", invalid, exhaustive=True),
                Enumeration("offer_written_by_the_application_with_add_header", own_offer, exhaustive=True),
                Enumeration("concurrent_compressed_senders_single_preemptions", scheduled(0), exhaustive=True),
                Enumeration("concurrent_compressed_senders_first_use_races", scheduled(1), exhaustive=True)]

    BATTERY = [
        # repeats across messages in both directions, text and binary, a fragmented compressed message
        [{"dir": "s", "kind": "text", "payload": ["rep", 700, 1], "compressed": True, "frag": [3, 3, 40], "inter": [[1, "ping"]],
          "flush": [], "full_flush": False, "level": -1},
         {"dir": "c", "kind": "text", "payload": ["rep", 900, 2], "compress": True, "at": "ready"},
         {"dir": "s", "kind": "text", "payload": ["same", 0], "compressed": True, "frag": [], "inter": [], "flush": [100],
          "full_flush": False, "level": 9},
         {"dir": "c", "kind": "text", "payload": ["same", 0], "compress": None, "at": 0},
         {"dir": "s", "kind": "binary", "payload": ["cat", 0, 300, ["rand", 50, 3]], "compressed": True, "frag": [1],
          "inter": [], "flush": [], "full_flush": False, "level": 1},
         {"dir": "c", "kind": "binary", "payload": ["cat", 0, 400, ["rand", 50, 4]], "compress": True, "at": 1},
         {"dir": "s", "kind": "binary", "payload": ["rand", 40, 9], "compressed": False, "frag": [], "inter": [], "flush": [],
          "full_flush": False, "level": -1},
         {"dir": "c", "kind": "binary", "payload": ["rand", 40, 9], "compress": False, "at": 2}],
        # longer than any window, then a message that refers far back
        [{"dir": "c", "kind": "binary", "payload": ["rand", 3000, 5], "compress": True, "at": "ready"},
         {"dir": "c", "kind": "binary", "payload": ["cat", 0, 3000, ["rand", 40000, 6]], "compress": True, "at": "ready"},
         {"dir": "c", "kind": "binary", "payload": ["same", 0], "compress": True, "at": "ready"},
         {"dir": "s", "kind": "binary", "payload": ["rand", 3000, 7], "compressed": True, "frag": [], "inter": [], "flush": [],
          "full_flush": False, "level": -1},
         {"dir": "s", "kind": "binary", "payload": ["cat", 0, 3000, ["rand", 40000, 8]], "compressed": True, "frag": [20000],
          "inter": [], "flush": [], "full_flush": False, "level": -1},
         {"dir": "s", "kind": "binary", "payload": ["same", 0], "compressed": True, "frag": [], "inter": [], "flush": [],
          "full_flush": False, "level": -1}],
        # empty, tiny and incompressible
        [{"dir": "c", "kind": "text", "payload": ["hex", ""], "compress": True, "at": "ready"},
         {"dir": "s", "kind": "text", "payload": ["hex", ""], "compressed": True, "frag": [], "inter": [], "flush": [],
          "full_flush": False, "level": -1},
         {"dir": "c", "kind": "binary", "payload": ["rand", 2000, 11], "compress": True, "at": "ready"},
         {"dir": "s", "kind": "binary", "payload": ["rand", 2000, 12], "compressed": True, "frag": [0, 0, 5], "inter": [],
          "flush": [], "full_flush": False, "level": 0},
         {"dir": "c", "kind": "text", "payload": ["hex", "61"], "compress": True, "at": 0},
         {"dir": "s", "kind": "text", "payload": ["hex", "61"], "compressed": True, "frag": [], "inter": [], "flush": [],
          "full_flush": True, "level": -1}],
        # a peer that ends messages with a BFINAL block (RFC 7692 7.2.3.4), mixed with sync-flushed ones
        [{"dir": "s", "kind": "text", "payload": ["rep", 300, 21], "compressed": True, "frag": [], "inter": [], "flush": [],
          "full_flush": False, "level": -1, "final": True},
         {"dir": "s", "kind": "text", "payload": ["same", 0], "compressed": True, "frag": [], "inter": [], "flush": [],
          "full_flush": False, "level": -1},
         {"dir": "s", "kind": "binary", "payload": ["rand", 200, 22], "compressed": True, "frag": [4, 30], "inter": [[0, "ping"]],
          "flush": [50], "full_flush": False, "level": 6, "final": True},
         {"dir": "s", "kind": "binary", "payload": ["same", 1], "compressed": True, "frag": [], "inter": [], "flush": [],
          "full_flush": False, "level": -1, "final": True},
         {"dir": "s", "kind": "text", "payload": ["hex", ""], "compressed": True, "frag": [], "inter": [], "flush": [],
          "full_flush": False, "level": -1, "final": True},
         {"dir": "s", "kind": "text", "payload": ["cat", 0, 200, ["rep", 100, 23]], "compressed": True, "frag": [], "inter": [],
          "flush": [], "full_flush": False, "level": -1},
         {"dir": "c", "kind": "text", "payload": ["rep", 100, 24], "compress": True, "at": 2}],
    ]

    # ------------------------------------------------------------------
    def run_case(self, case):
        if case.get("sched"):
            if not hasattr(self, "_sched"):
                self.enumerations("quick")
            inner = dict(case)
            inner.pop("sched")
            return self._sched.run_case(inner)
        if "invalid" in case:
            return self.run_invalid(case)
        if "battery" in case:
            cfg0 = case["cfg"]
            presets = [{"order": 0}, {"order": 1, "list": 1}, {"order": 2, "list": 2}, {"order": 0, "list": 4, "quote": True},
                       {"order": 1, "quote": True}, {"order": 2, "eq_l": " ", "eq_r": " "},
                       {"order": 7, "semi_l": " ", "semi_r": "", "eq_l": "\t"}, {"order": 3, "omit_default": True},
                       {"order": 9, "quote": True, "eq_r": " ", "semi_r": "  "},
                       {"order": 0, "fold": 0}, {"order": 4, "fold": 1, "name": 2}, {"order": 5, "fold": 0, "name": 3, "quote": True},
                       {"order": 8, "fold": 2, "name": 1, "pre": "", "post": " "}, {"order": 6, "fold": 3, "pre": "\t"}]
            spelling = presets[(cfg0["sb"] + cfg0["cb"] * 3 + case["battery"]) % len(presets)]
            case = {"cfg": case["cfg"], "spelling": spelling, "steps": self.BATTERY[case["battery"]],
                    "negotiated": True, "damage": None, "seg": "whole", "offer": case.get("offer")}
        cfg = case["cfg"]
        negotiated = case["negotiated"]
        peer = deflateref.Peer(cfg["sb"], cfg["cb"], cfg["snct"], cfg["cnct"])
        labels = {"sb:%d" % cfg["sb"], "cb:%d" % cfg["cb"]}
        # ---- build the server stream and the client's send plan
        s_hist, c_hist = [], []
        data = bytearray()
        expected = []          # server -> client events
        client_plan = []       # (trigger, action, original payload, compress flag)
        n_s_comp = n_c_comp = 0
        fragmented_comp = False
        damage = case.get("damage")
        ref_inflater = zlib.decompressobj(-cfg["sb"])
        # under server_no_context_takeover a receiver MAY start every message with a fresh inflater but need not
        # (RFC 7692 7.1.1.1): both readings agree on everything a conforming peer sends, yet can differ on damaged
        # bytes.  ``kept_inflater`` is the reading that never drops its window.
        kept_inflater = zlib.decompressobj(-cfg["sb"])
        dead = False           # after an expected ProtocolError nothing more is expected
        lenient_from = None    # index of the first expected event at/after a damaged message
        s_index = 0
        for step in case["steps"]:
            if step["dir"] == "c":
                raw = payload_bytes(step["payload"], c_hist)
                if step["kind"] == "text":
                    text = build.text_from_seed(min(len(raw), 3000), len(raw)) if raw else ""
                    raw = text.encode("utf-8")
                c_hist.append(raw)
                client_plan.append((step["at"], step["kind"], raw, step.get("compress")))
                continue
            raw = payload_bytes(step["payload"], s_hist)
            if step["kind"] == "text":
                raw = (build.text_from_seed(min(len(raw), 3000), len(raw)) if raw else "").encode("utf-8")
            s_hist.append(raw)
            opcode = wire.TEXT if step["kind"] == "text" else wire.BINARY
            comp = step["compressed"] and negotiated
            body = raw
            if comp:
                body = peer.compress(raw, step["level"], step["flush"], step["full_flush"], step.get("final", False))
                n_s_comp += 1
                if step.get("final"):
                    labels.add("bfinal_message")
            want = raw
            if comp and damage is not None and damage[0] % len(case["steps"]) == s_index and body:
                b = bytearray(body)
                b[damage[1] % len(b)] ^= damage[2]
                body = bytes(b)
                labels.add("damaged")
                lenient_from = len(expected)
                want = self.reference_inflate(ref_inflater, body, cfg)
                if cfg["snct"] and self.reference_inflate(kept_inflater, body, cfg) != want:
                    want = "unspecified"       # the two legal readings disagree about these damaged bytes
            elif comp and not dead:
                got = self.reference_inflate(ref_inflater, body, cfg)
                alt = self.reference_inflate(kept_inflater, body, cfg)
                if "damaged" in labels:
                    want = got       # history differs from the compressor's after a damaged message
                    if cfg["snct"] and alt != got:
                        want = "unspecified"
                elif got != raw:
                    raise boot.HarnessError("reference peer cannot inflate its own output")
            if cfg["snct"] or (comp and ref_inflater.eof):
                ref_inflater = zlib.decompressobj(-cfg["sb"])
            if comp and (kept_inflater.eof or kept_inflater.unused_data):
                kept_inflater = zlib.decompressobj(-cfg["sb"])
            s_index += 1
            cuts = sorted(min(max(c, 0), len(body)) for c in step["frag"])
            pieces, last = [], 0
            for c in cuts:
                pieces.append(body[last:c])
                last = c
            pieces.append(body[last:])
            if comp and len(pieces) > 1:
                fragmented_comp = True
            inter = {}
            for after, kind in step["inter"]:
                inter.setdefault(after % len(pieces), []).append(kind)
            for i, piece in enumerate(pieces):
                fin = 1 if i == len(pieces) - 1 else 0
                data += B(opcode if i == 0 else wire.CONT, piece, fin=fin, rsv1=1 if (comp and i == 0) else 0)
                if not fin:
                    for kind in inter.get(i, []):
                        data += B(wire.PING if kind == "ping" else wire.PONG, b"i")
                        if not dead:
                            expected.append({"name": kind, "data": b"i"})
            if dead:
                continue
            if want is None or want == "unspecified":
                expected.append({"name": "?" if want == "unspecified" else "protocol_error"})
                dead = True
            elif step["kind"] == "text":
                if utf8ref.is_valid(want):
                    expected.append({"name": "text", "text": utf8ref.decode(want)})
                else:
                    expected.append({"name": "protocol_error"})
                    dead = True
            else:
                expected.append({"name": "binary", "data": want})
        # ---- scenario
        if negotiated:
            reply = spelled_reply(cfg, case["spelling"])
        else:
            reply = None
        reactions = []
        n_msgs = sum(1 for e in expected if e["name"] in ("text", "binary", "ping", "pong"))
        order = []
        for at, kind, raw, compress in client_plan:
            when = ["event", "ready", 0] if (at == "ready" or at >= n_msgs or damage is not None) else ["msg", at]
            order.append((0 if when[0] == "event" else 1 + when[1], len(order), kind, raw, compress))
            if kind == "text":
                action = ["send_text", raw.decode("utf-8")]
            else:
                action = ["send_binary", raw.hex()]
            if compress is not None:
                action.append(compress)
            reactions.append({"when": when, "do": [action]})
        order.sort()
        reply_len = len(httpref.build_reply(reply, b""))
        seg = effective_seg(case["seg"], reply_len + len(data))
        ws_opts = {"compress": True}
        if negotiated and case.get("offer") is not None:
            # the offer is the application's own header (the peer sees an offer and accepts it all the same)
            hname, hvalue = OFFER_HEADERS[case["offer"] % len(OFFER_HEADERS)]
            ws_opts = {"headers": [[hname.hex(), hvalue.hex()]]}
            labels.add("offer_written_by_the_application")
        scn = build.scenario(
            [["wait_request"], ["stream", [["reply", reply], ["bytes", bytes(data)]], seg, 0.0], ["eof", 1.0]],
            ws_opts=ws_opts, reactions=reactions, connect_opts={"ping_rate": 0, "auto_pong": False})
        tr = simnet.run_scenario(scn)
        names = tr.names()
        takeover_c = (not cfg["cnct"])
        takeover_s = (not cfg["snct"])
        n_c_comp = sum(1 for _, _, _, c in client_plan if c is not False) if negotiated else 0
        nontrivial = negotiated and ((n_s_comp >= 2 and takeover_s) or (n_c_comp >= 2 and takeover_c)
                                     or fragmented_comp or cfg["sb"] < 15 or cfg["cb"] < 15)
        if tr.hang:
            return failed("hang", tr.hang, labels, nontrivial)
        if tr.escaped:
            return failed("escaped_exception", tr.escaped, labels, nontrivial)
        if "ready" not in names:
            return failed("valid_negotiation_rejected", "extension header %r: events %s %s" % (
                reply["headers"][-1][1] if negotiated else None, names,
                [e.get("reason") for e in tr.events if e["name"] == "rejected"]), labels, nontrivial)
        ready = [e for e in tr.events if e["name"] == "ready"][0]
        if list(ready.get("extensions") or []) != (["permessage-deflate"] if negotiated else []):
            return failed("ready_extensions", "Ready.extensions=%r" % (ready.get("extensions"),), labels, nontrivial)
        # ---- server -> client
        got = [e for e in tr.events if e["name"] in ("text", "binary", "ping", "pong", "protocol_error")]
        cmp_expected = list(expected)
        if cmp_expected and cmp_expected[-1]["name"] == "?":
            # the damaged message's outcome is not fixed (BFINAL / trailing garbage): compare the prefix only
            cmp_expected = cmp_expected[:-1]
            got = got[:len(cmp_expected)]
            labels.add("damaged_unspecified")
        for e in cmp_expected:
            if e["name"] == "protocol_error":
                labels.add("expects_protocol_error")
        got_cmp = [{k: v for k, v in g.items() if k in ("name", "text", "data")} if g["name"] != "protocol_error"
                   else {"name": "protocol_error"} for g in got]
        if lenient_from is not None:
            # from the damaged message on the statement only forbids WRONG CONTENT: a
            # ProtocolError instead of any later message is acceptable
            strict_exp, strict_got = cmp_expected[:lenient_from], got_cmp[:lenient_from]
            for g, e in zip(got_cmp[lenient_from:], cmp_expected[lenient_from:]):
                if g["name"] == "protocol_error":
                    break
                strict_exp.append(e)
                strict_got.append(g)
            else:
                extra = got_cmp[len(cmp_expected):]
                if extra and extra[0]["name"] != "protocol_error" and not labels & {"damaged_unspecified"}:
                    strict_got.append(extra[0])
            cmp_expected, got_cmp = strict_exp, strict_got
        why = compare_events(got_cmp, cmp_expected)
        if why:
            sig = "wrong_content_delivered" if ("payload differs" in why or "attribute" in why or lenient_from is not None) \
                else "delivery_mismatch"
            return failed(sig, "cfg %s: %s | events %s" % (cfg, why, names), labels, nontrivial)
        # ---- client -> server
        frames, problem = client_frames(tr.sim)
        if problem:
            return failed("invalid_client_frame", problem, labels, nontrivial)
        dframes = [f for _, f in frames if f.opcode in (wire.TEXT, wire.BINARY)]
        sent_ok = [r for r in tr.actions if r["result"] == "ok"]
        if "protocol_error" in names:
            order = order[:len(dframes)]      # sends after the connection failed are refused
        if len(dframes) != len(order) or len(sent_ok) != len(dframes):
            return failed("client_frame_count", "%d data frames on the wire for %d sends (%d returned normally); events %s" % (
                len(dframes), len(order), len(sent_ok), names), labels, nontrivial)
        for n, (f, (_, _, kind, raw, compress)) in enumerate(zip(dframes, order)):
            # RSV1 is allowed only when the extension was negotiated and compression requested;
            # a requested-but-uncompressed frame (RSV1 clear, raw payload) is legal per message
            may_compress = negotiated and compress is not False
            if f.rsv1 and not may_compress:
                return failed("wrong_rsv1", "client message %d: RSV1 set although negotiated=%s, compress=%r" % (
                    n, negotiated, compress), labels, nontrivial)
            if may_compress and not f.rsv1:
                labels.add("requested_compression_sent_uncompressed")
            if f.opcode != (wire.TEXT if kind == "text" else wire.BINARY):
                return failed("wrong_opcode", "client message %d" % n, labels, nontrivial)
            body = f.payload
            if f.rsv1:
                try:
                    body = peer.inflate(body)
                except deflateref.InflateError as error:
                    return failed("peer_cannot_inflate", "cfg %s, client message %d (%d bytes): %s" % (
                        cfg, n, len(raw), error), labels, nontrivial)
            if body != raw:
                return failed("client_message_corrupted", "cfg %s, client message %d: peer restored %d bytes, %d were sent" % (
                    cfg, n, len(body), len(raw)), labels, nontrivial)
        return held(labels, nontrivial)

    @staticmethod
    def reference_inflate(inflater, body, cfg):
        """What a zlib inflater with the negotiated window makes of these bytes: bytes,
        None (error) or 'unspecified' (BFINAL followed by anything but the single 0x00 octet / trailing data)."""
        try:
            out = inflater.decompress(body + deflateref.TAIL)
        except zlib.error:
            return None
        if inflater.eof and inflater.unused_data == b"\x00" + deflateref.TAIL:
            return out     # RFC 7692 7.2.3.4: BFINAL block + 0x00; the caller starts a new inflater
        if inflater.eof or inflater.unused_data:
            return "unspecified"
        return out

    def run_invalid(self, case):
        reply = httpref.canonical_spec(extensions=[case["invalid"]])
        scn = build.scenario(
            [["wait_request"], ["stream", [["reply", reply], ["bytes", B(wire.TEXT, b"x")]], "whole", 0.0], ["eof", 0.0]],
            ws_opts={"compress": True})
        tr = simnet.run_scenario(scn)
        names = tr.names()
        labels = {"invalid_negotiation"}
        if tr.hang or tr.escaped:
            return failed("hang" if tr.hang else "escaped_exception", tr.hang or tr.escaped, labels, True)
        if "ready" in names or "rejected" not in names or "text" in names:
            return failed("invalid_parameters_accepted", "%r: events %s" % (case["invalid"], names), labels, True)
        return held(labels, True)


PROP = C06()
