"""C12 - close() is atomic with respect to other threads' sends and closes."""
import struct

from harness import wire
from harness.runner import held, failed
from props import racecommon as rc
from props.c11 import C11, thread_names

P = rc.payload_for
SRV_CLOSE = rc.B(wire.CLOSE, struct.pack("!H", 1001) + b"srv").hex()
SRV_PING = rc.B(wire.PING, b"ping-one").hex()

SCENARIOS = {
    "close_vs_text": {"deflate": False, "threads": {"A": [["close", 1000, "a"]], "B": [["send_text", P("B", 0)]]}},
    "close_vs_binary_deflate": {"deflate": True, "threads": {"A": [["close", 1000, "a"]], "B": [["send_binary", P("B", 0)]]}},
    "close_vs_ping": {"deflate": False, "threads": {"A": [["close", 1000, "a"]], "B": [["send_ping", "B-0:ping"]]}},
    "close_vs_close": {"deflate": False, "threads": {"A": [["close", 1000, "a"]], "B": [["close", 1001, "b"]]}},
    "close_vs_2_sends": {"deflate": False, "threads": {"A": [["close", 1000, "a"]],
                                                        "B": [["send_text", P("B", 0)], ["send_text", P("B", 1)]]}},
    "send_then_close_vs_sends": {"deflate": True, "threads": {"A": [["send_text", P("A", 0)], ["close", 1000, "a"]],
                                                               "B": [["send_text", P("B", 0)], ["send_binary", P("B", 1)]]}},
    "close_close_send": {"deflate": False, "threads": {"A": [["close", 1000, "a"]], "B": [["send_text", P("B", 0)]],
                                                        "C": [["close", 1002, "c"]]}},
    "close_vs_server_close_echo": {"deflate": False, "threads": {"A": [["close", 1000, "a"]]},
                                   "loop": {"bytes": SRV_CLOSE, "idle_waits": 0}, "copts": {"ping_rate": 0}},
    "close_vs_autopong": {"deflate": False, "threads": {"A": [["close", 1000, "a"]]},
                          "loop": {"bytes": SRV_PING, "idle_waits": 0}, "copts": {"ping_rate": 0}},
    "close_vs_autoping": {"deflate": False, "threads": {"A": [["close", 1000, "a"]]},
                          "loop": {"bytes": "", "idle_waits": 1}, "copts": {"ping_rate": 1.0, "poll": 2.0}},
    "send_vs_server_close_echo": {"deflate": False, "threads": {"A": [["send_text", P("A", 0)], ["send_text", P("A", 1)]]},
                                  "loop": {"bytes": SRV_CLOSE, "idle_waits": 0}, "copts": {"ping_rate": 0}},
    "close_and_send_vs_server_close_echo": {"deflate": False, "threads": {"A": [["close", 1000, "a"]],
                                                                          "B": [["send_text", P("B", 0)]]},
                                            "loop": {"bytes": SRV_CLOSE, "idle_waits": 0}, "copts": {"ping_rate": 0}},
}
SCENARIOS.update({
    # three actors: a sender, a pinger (application ping / the loop's pong / the loop's automatic ping) and a closer
    "send_ping_close": {"deflate": False, "threads": {"A": [["send_text", P("A", 0)]], "B": [["send_ping", "B-0:ping"]],
                                                       "C": [["close", 1000, "c"]]}},
    "send_autopong_close": {"deflate": False, "threads": {"A": [["send_text", P("A", 0)]], "C": [["close", 1000, "c"]]},
                            "loop": {"bytes": SRV_PING, "idle_waits": 0}, "copts": {"ping_rate": 0}},
    "send_autoping_close": {"deflate": False, "threads": {"A": [["send_binary", P("A", 0)]], "C": [["close", 1000, "c"]]},
                            "loop": {"bytes": "", "idle_waits": 1}, "copts": {"ping_rate": 1.0, "poll": 2.0}},
})
SRV_CLOSE_EMPTY = rc.B(wire.CLOSE, b"").hex()
SCENARIOS.update({
    # other shapes of the Close frame: a server Close without a body (echoed with an empty payload), an
    # application close() without a status code, a reason of the maximal length
    "send_vs_empty_server_close_echo": {"deflate": False, "threads": {"A": [["send_text", P("A", 0)], ["send_text", P("A", 1)]]},
                                        "loop": {"bytes": SRV_CLOSE_EMPTY, "idle_waits": 0}, "copts": {"ping_rate": 0}},
    "close_and_send_vs_empty_server_close_echo": {"deflate": False, "threads": {"A": [["close", 1000, "a"]],
                                                                                "B": [["send_binary", P("B", 0)]]},
                                                  "loop": {"bytes": SRV_CLOSE_EMPTY, "idle_waits": 0},
                                                  "copts": {"ping_rate": 0}},
    "close_without_code_vs_text": {"deflate": False, "threads": {"A": [["close", None, ""]], "B": [["send_text", P("B", 0)]],
                                                                  "C": [["close", 1000, "r" * 123]]}},
})
SRV_VIOLATION = (b"\x83\x01x" + rc.B(wire.TEXT, b"after the violation")).hex()     # reserved opcode 3, then a text frame
SRV_BAD_UTF8 = rc.B(wire.TEXT, b"\xff\xfe").hex()
SCENARIOS.update({
    # the loop fails the connection (Close 1002 / 1007) for a protocol violation while the application closes / sends
    "close_vs_protocol_error": {"deflate": False, "threads": {"A": [["close", 1000, "a"]]},
                                "loop": {"bytes": SRV_VIOLATION, "idle_waits": 0}, "copts": {"ping_rate": 0}},
    "close_and_send_vs_bad_utf8": {"deflate": False, "threads": {"A": [["close", 1000, "a"]], "B": [["send_text", P("B", 0)]]},
                                   "loop": {"bytes": SRV_BAD_UTF8, "idle_waits": 0}, "copts": {"ping_rate": 0}},
})
BIG = rc.big_payload
SCENARIOS.update({
    # frames of the other length classes (16-bit length form; beyond 64 KiB, larger than any buffer or chunk size in the
    # client) racing with a Close of the application, and with the loop's echo of the server's Close
    "close_vs_medium_text": {"deflate": False, "threads": {"A": [["close", 1000, "a"]], "B": [["send_text", BIG("B", 0, 300)]]}},
    "close_vs_large_binary": {"deflate": False, "threads": {"A": [["close", 1000, "a"]], "B": [["send_binary", BIG("B", 0, 140000)]]}},
    "close_vs_large_incompressible_deflate": {"deflate": True, "threads": {"A": [["close", 1000, "a"]],
                                                                            "B": [["send_binary", BIG("B", 0, 150000)]]}},
    "large_send_vs_server_close_echo": {"deflate": False, "threads": {"A": [["send_binary", BIG("A", 0, 140000)]]},
                                        "loop": {"bytes": SRV_CLOSE, "idle_waits": 0}, "copts": {"ping_rate": 0}},
})
SCENARIOS.update({
    # the application called close() BEFORE the opening handshake had finished (at Connected): the Close frame is on the
    # wire when Ready arrives; sends and a second close() then race on two threads and with the loop's own writes
    "early_close_then_send_vs_close": {"deflate": False, "at_connected": [["close", 1000, "early"]],
                                       "threads": {"A": [["send_text", P("A", 0)]], "B": [["close", 1001, "b"]]}},
    "early_close_then_sends_deflate": {"deflate": True, "at_connected": [["close", 1000, "early"]],
                                       "threads": {"A": [["send_text", P("A", 0)], ["send_binary", P("A", 1)]],
                                                   "B": [["send_ping", "B-0:ping"]]}},
    "early_close_then_send_vs_autopong": {"deflate": False, "at_connected": [["close", 1000, "early"]],
                                          "threads": {"A": [["send_text", P("A", 0)]]},
                                          "loop": {"bytes": SRV_PING, "idle_waits": 0}, "copts": {"ping_rate": 0}},
    "early_close_then_send_vs_server_close": {"deflate": False, "at_connected": [["close", 1000, "early"]],
                                              "threads": {"A": [["send_text", P("A", 0)], ["close", 1000, "again"]]},
                                              "loop": {"bytes": SRV_CLOSE, "idle_waits": 0}, "copts": {"ping_rate": 0}},
})
BOUND2 = ["close_vs_text", "close_vs_close", "close_vs_ping", "close_vs_server_close_echo"]


def judge(scn, out):
    if out.aborted:
        return "hang", out.aborted
    if out.leaked_threads:
        return "harness", "threads did not unwind: %s" % out.leaked_threads
    for name, err in out.errors.items():
        return "escaped_exception", "thread %s: %r" % (name, err)
    for name, st_ in out.states.items():
        if st_ not in ("done", "parked"):
            return "deadlock", "thread %s ended in state %s" % (name, st_)
    frames, problems = wire.decode_client_frames(out.wire)
    if problems:
        return "torn_or_invalid_frames", "; ".join(problems[:3])
    closes = [i for i, f in enumerate(frames) if f.opcode == wire.CLOSE]
    if len(closes) > 1:
        return "two_close_frames", "%d Close frames on the wire: %s" % (
            len(closes), [frames[i].payload[:12] for i in closes])
    if closes:
        after = frames[closes[0] + 1:]
        if after:
            return "frame_after_close", "frames written after the Close frame: %s" % [repr(f) for f in after]
    close_at = closes[0] if closes else len(frames)
    from harness import deflateref
    peer = deflateref.Peer()
    bodies = []
    for i, f in enumerate(frames):
        if f.rsv1:
            try:
                bodies.append(peer.inflate(f.payload))
            except deflateref.InflateError as error:
                return "peer_cannot_inflate", "frame %d in wire order: %s" % (i, error)
        else:
            bodies.append(f.payload)
    for name, calls in scn["threads"].items():
        res = out.results.get(name, [])
        if len(res) != len(calls):
            return "harness", "thread %s completed %d of %d calls" % (name, len(res), len(calls))
        for call, result, mro in res:
            if call[0] == "close":
                if result != "ok":
                    return "close_raised", "close() raised %s" % result
                continue
            raw = call[1].encode("utf-8")
            on_wire = [i for i, f in enumerate(frames) if f.opcode != wire.CLOSE and raw == bodies[i]]
            if result == "ok":
                if not on_wire:
                    return "send_lost", "%s by %s returned normally but is not on the wire" % (call[0], name)
                if on_wire[0] > close_at:
                    return "frame_after_close", "%s by %s written after the Close" % (call[0], name)
            else:
                if "WebSocketError" not in (mro or []):
                    return "race_loser_wrong_exception", "%s by %s raised %s (not a WebSocketError)" % (call[0], name, result)
                if on_wire:
                    return "refused_send_was_written", "%s by %s raised %s but its frame is on the wire" % (
                        call[0], name, result)
    return None


class C12(C11):
    id = "C12"
    rule = ("%d scenarios:" % len(SCENARIOS) + "  close() racing with send_text / send_binary / send_ping / another close() on 2-3 threads, and with the "
            "event-loop thread echoing a server Close (with and without a body), answering a Ping or crossing a ping deadline; run under the deterministic "
            "scheduler (source-line granularity inside lomond + lock acquisition + the middle of every sendall). Schedules: every "
            "thread order x every single preemption (exhaustive, both tiers), every pair of preemptions for four scenarios "
            "(thorough), Hypothesis-drawn schedules with up to 8 preemptions. Oracle: at most one Close frame on the wire, no "
            "frame after it, every racing send either wrote its frame before the Close or raised a WebSocketError and wrote "
            "nothing. Non-trivial = at least one preemption took effect.")
    examples = {"quick": 1500, "thorough": 30000}

    def scenarios(self):
        return SCENARIOS

    def judge(self, scn, out):
        return judge(scn, out)

    def bound2(self):
        return BOUND2


PROP = C12()
