"""C17 - each connect() starts from a clean slate."""
import struct

from hypothesis import strategies as st

from harness import build, gen, simnet, wire, httpref, deflateref
from harness.runner import Prop, Enumeration, held, failed
from props.c04 import deflate_reply, violating_frames, CLASSES

B = wire.build_frame

A_KINDS = ["cut", "cut_open_fragment", "cut_compressed", "client_closing", "server_close", "rejected",
           "connect_fail", "abandon_break", "abandon_raise", "protocol_error", "timers", "oversize_reply",
           # abandoned with the generator object still referenced; it is only finalised after the NEXT connect() call
           # (``events = ws.connect()`` re-using the variable) or while the next connection is running
           "abandon_hold",
           # the previous connection's inflater was left in a bad place: a compressed message that is garbage (zlib's error
           # state is sticky), and a complete message whose deflate stream stops in the middle of a block
           "bad_deflate", "truncated_deflate"]
NON_DEFAULT = {"sb": 9, "cb": 10, "snct": True, "cnct": True}       # a previous connection negotiated these ...
NON_DEFAULT_2 = {"sb": 12, "cb": 15, "snct": False, "cnct": False}    # ... and the next one these
RELEASE_POINTS = ["after_connect", "after_connect", 0, 1, 2, 3, 4, 6]


def deflate_stream(seed_payloads, peer):
    out = bytearray()
    for i, p in enumerate(seed_payloads):
        body = peer.compress(p)
        if i % 2:
            out += B(wire.BINARY, body[:len(body) // 2], rsv1=1, fin=0) + B(wire.CONT, body[len(body) // 2:])
        else:
            out += B(wire.TEXT, body, rsv1=1)
    return bytes(out)


def ext_reply(deflate):
    """Handshake reply for a deflate dimension value (False / True / configuration dict)."""
    return httpref.canonical_spec(extensions=[deflateref.header_of(deflate)]) if deflate else None


def attempt_A(a, deflate):
    """One abnormal previous connection."""
    kind = a["kind"]
    reply = ext_reply(deflate)
    reply_len = len(httpref.build_reply(reply, b""))
    frac = a.get("frac", 500) / 1000.0
    sends = [{"when": ["event", "ready", 0], "do": [["send_text", "previous connection " * 4], ["send_binary", "00" * 40],
                                                       ["send_text", "previous connection " * 4]]}]
    if kind == "connect_fail":
        return {"addrs": [{"connect": "refused"}], "script": []}
    if kind == "rejected":
        return {"script": [["wait_request"], ["stream", [["reply", {"status": 403, "reason": "No", "headers": []}]], "whole", 0.0],
                           ["eof", 0.0]]}
    if kind == "oversize_reply":
        return {"script": [["wait_request"], ["stream", [["reply", dict(httpref.canonical_spec(), pad_to=17000)]], "whole", 0.0],
                           ["eof", 0.0]]}
    if kind == "cut":
        built = build.build_session(a["msgs"])
        total = reply_len + len(built.data)
        cut = max(1, int(total * frac))
        return {"script": [["wait_request"],
                           ["stream", [["reply", reply], ["bytes", bytes(built.data)]], "whole", 0.0, {"limit": cut}],
                           [a.get("end", "eof"), 0.0]], "reactions": sends}
    if kind == "cut_open_fragment":
        data = B(wire.TEXT, "opening €".encode("utf-8")[:-1], fin=0) + B(wire.PING, b"mid") + \
            B(wire.CONT, b"\x82", fin=0)[: 2 + (a.get("frac", 0) % 2)]
        return {"script": [["wait_request"], ["stream", [["reply", reply], ["bytes", data]], "whole", 0.0],
                           [a.get("end", "eof"), 0.0]], "reactions": sends}
    if kind == "cut_compressed":
        peer = deflateref.peer_of(deflate)
        payloads = [b"shared history between connections " * 8, bytes(range(256)) * 3, b"shared history between connections " * 8]
        data = deflate_stream(payloads, peer) if deflate else build.build_session(
            [{"kind": "binary", "payload": ["rep", 600, 1], "frag": [100]}]).data
        cut = max(1, int(len(data) * frac))
        return {"script": [["wait_request"], ["stream", [["reply", reply], ["bytes", bytes(data[:cut])]], "whole", 0.0],
                           ["reset", 0.0]], "reactions": sends}
    if kind == "client_closing":
        return {"script": [["wait_request"], ["stream", [["reply", reply], ["bytes", B(wire.TEXT, b"x", fin=0)]], "whole", 0.0],
                           [a.get("end", "eof"), 1.0]],
                "reactions": [{"when": ["event", "ready", 0], "do": [["send_text", "bye soon"], ["close", 1001, "going"]]}]}
    if kind == "server_close":
        return {"script": [["wait_request"],
                           ["stream", [["reply", reply], ["bytes", B(wire.CLOSE, struct.pack("!H", 1000) + b"srv")]], "whole", 0.0],
                           ["reset", 0.5]], "reactions": sends}
    if kind in ("abandon_break", "abandon_raise", "abandon_hold"):
        built = build.build_session(a["msgs"] + [{"kind": "text", "payload": ["str", "tail"], "frag": [2]}])
        mech = {"abandon_break": "break", "abandon_raise": "raise", "abandon_hold": "hold"}[kind]
        if kind == "abandon_hold":
            # any event index from Connected on (index 1), incl. idle Polls from the top of the loop
            return {"script": [["wait_request"], ["stream", [["reply", reply], ["bytes", bytes(built.data)]], ["uniform", 5], 0.0],
                               ["pause", 3.0], ["eof", 5.0]], "connect_opts": {"poll": 1.0, "ping_rate": 0},
                    "reactions": sends + [{"when": ["index", 1 + a.get("frac", 0) % 9], "do": [[mech]]}]}
        return {"script": [["wait_request"], ["stream", [["reply", reply], ["bytes", bytes(built.data)]], ["uniform", 5], 0.0],
                           ["eof", 5.0]],
                "reactions": sends + [{"when": ["index", 2 + a.get("frac", 0) % 6], "do": [[mech]]}]}
    if kind == "protocol_error":
        data = B(wire.TEXT, b"fr", fin=0) + violating_frames({"class": CLASSES[a.get("frac", 0) % len(CLASSES)],
                                                               "a": a.get("frac", 0), "b": 1, "open": True,
                                                               "open_text": True}, bool(deflate))
        return {"script": [["wait_request"], ["stream", [["reply", reply], ["bytes", data]], "whole", 0.0], ["eof", 0.0]],
                "reactions": sends}
    if kind in ("bad_deflate", "truncated_deflate"):
        if not deflate:
            data = B(wire.TEXT, b"fr", fin=0) + B(wire.TEXT, b"text inside a text message")
        else:
            peer = deflateref.peer_of(deflate)
            good = B(wire.TEXT, peer.compress(b"shared history between connections " * 8), rsv1=1)
            body = peer.compress(bytes(range(256)) * 3 + b"shared history between connections " * 8)
            if kind == "bad_deflate":
                bad = B(wire.BINARY, b"\xff\xff\xff" + body[3:], rsv1=1)
            else:
                cut = max(2, int(len(body) * (0.2 + 0.6 * frac)))
                bad = B(wire.BINARY, body[:cut], rsv1=1)
            data = good + bad
        return {"script": [["wait_request"], ["stream", [["reply", reply], ["bytes", data]], "whole", 0.0],
                           [a.get("end", "eof"), 0.0]], "reactions": sends}
    if kind == "timers":
        return {"script": [["wait_request"], ["stream", [["reply", reply]], "whole", 0.0],
                           ["stream", [["bytes", B(wire.PONG, b"")]], "whole", 3.0], ["eof", 400.0]],
                "connect_opts": {"poll": 1.0, "ping_rate": 2.0, "ping_timeout": 4.0, "close_timeout": 3.0},
                "reactions": [{"when": ["time_after_ready", 5.0], "do": [["close"]]}]}
    raise ValueError(kind)


# custom request headers: new names, and names the client sends itself (any casing)
APP_HEADERS = [["X-Token", "abc"], ["Cookie", "sid=1; theme=dark"], ["Authorization", "Bearer t0ken"], ["user-agent", "mine/2"],
               ["Origin", "http://example.test"], ["X-Token", "second"]]
PROXY_200 = b"HTTP/1.1 200 Connection established\r\nVia: 1.1 p\r\n\r\n"
PROXIES = {"http": "http://proxy.test:3128", "https": "http://proxy.test:3128"}


def through_proxy(att, seg="whole", cut=None, end="eof"):
    """The same attempt made through an HTTP proxy: the CONNECT exchange first (the proxy's answer under the given
    segmentation), or - cut given - an exchange that breaks off after that many bytes of the proxy's answer."""
    att = dict(att)
    if not att.get("script"):
        return att                      # the connection (to the proxy, then) is refused
    if cut is not None:
        att["script"] = [["wait_request"], ["stream", [["bytes", PROXY_200[:cut % len(PROXY_200)]]], "whole", 0.0], [end, 0.0]]
        att.pop("reactions", None)
        return att
    att["script"] = [["wait_request"], ["stream", [["bytes", PROXY_200]], seg, 0.0], ["wait_requests", 2]] + att["script"][1:]
    return att


def attempt_B(b, deflate):
    reply = ext_reply(deflate)
    peer = deflateref.peer_of(deflate)
    msgs = []
    for i, m in enumerate(b["msgs"]):
        m = dict(m)
        if deflate and m["kind"] in ("text", "binary") and (b.get("cmask", 0) >> (i % 6)) & 1:
            m["compress"] = True
        msgs.append(m)
    built = build.build_session(msgs, (lambda payload, msg: peer.compress(payload)) if deflate else None)
    data = bytes(built.data)
    if b.get("viol") is not None:
        data += violating_frames({"class": CLASSES[b["viol"] % len(CLASSES)], "a": b["viol"], "b": 0}, bool(deflate))
    if b.get("close"):
        data += B(wire.CLOSE, struct.pack("!H", 1000) + b"done")
    from props.c01 import effective_seg
    seg = effective_seg(b.get("seg", "whole"), 200 + len(data))
    script = [["wait_request"], ["stream", [["reply", reply], ["bytes", data]], seg, 0.0]]
    if b.get("idle"):
        script.append(["stream", [["bytes", B(wire.PONG, b"late")]], "whole", b["idle"] * 0.5])
    script.append(["eof", 1.0])
    reactions = [{"when": ["event", "ready", 0], "do": [["send_text", "previous connection " * 4], ["send_binary", "00" * 40]]}]
    if b.get("app_close") is not None:
        reactions.append({"when": ["msg", b["app_close"]], "do": [["close", 1000, "b"]]})
    att = {"script": script, "reactions": reactions}
    if b.get("timers"):
        att["connect_opts"] = {"poll": 1.0, "ping_rate": 2.0, "ping_timeout": 4.0, "close_timeout": 3.0}
    return att


def normalise(tr):
    """Events (payloads, time relative to Connecting), unmasked client frames, request sans key."""
    t0 = tr.events[0]["t"] if tr.events else 0.0
    evs = []
    for e in tr.events:
        evs.append(tuple(sorted((k, repr(v) if k != "t" else repr(round(v - t0, 6))) for k, v in e.items())))
    writes = []
    for e in tr.sim.log[tr.log_start:tr.log_end]:
        if e[0] not in ("send", "send_fail"):
            continue
        data = e[2]
        if data.startswith(b"GET "):
            lines = [ln for ln in data.split(b"\r\n") if not ln.lower().startswith(b"sec-websocket-key:")]
            writes.append(("request", b"\r\n".join(lines)))
            continue
        frames, rest = wire.decode_frames(data)
        for f in frames:
            writes.append((e[0], f.opcode, f.fin, f.rsv1, f.payload, round(e[3] - t0, 6)))
        if rest:
            writes.append(("raw", rest))
    outcome = (tr.ended, tr.hang, tr.escaped)
    actions = [(a["ev"], a["action"][0], a["result"]) for a in tr.actions]
    return evs, writes, outcome, actions


def request_key(tr):
    for e in tr.sim.log[tr.log_start:tr.log_end]:
        if e[0] == "send" and e[2].startswith(b"GET "):
            for ln in e[2].split(b"\r\n"):
                if ln.lower().startswith(b"sec-websocket-key:"):
                    return ln.split(b":", 1)[1].strip()
    return None


class C17(Prop):
    id = "C17"
    level = "exploration"
    rule = ("metamorphic: a chain of 1-4 previous connections with ABNORMAL endings (stream cut mid-reply / mid-header / "
            "mid-payload / inside an unfinished fragmented message with half a UTF-8 character / inside a compressed message with "
            "context takeover / while the client is closing / after the server's Close; rejected; oversize reply; connect failure; "
            "protocol error; armed timers; abandoned by break or exception, or abandoned with the generator "
            "kept referenced and only finalised right after the next connect() call or at a drawn event of the next connection) followed by a connection B (conforming session with or "
            "without compression and client sends, injected violation, closing handshakes, timers) on ONE WebSocket object; B's "
            "trace (events with payloads and times relative to Connecting, unmasked client frames, request) must equal B's trace "
            "on a freshly constructed object, and successive requests carry the successive keys drawn. Non-trivial = some previous "
            "connection reached Ready (so parser/fragment/deflate/closing/timer state was non-initial) and B reaches Ready.")
    assumptions = ("a previous connection's generator is either finalised before the next connect() (as persist() does) or, "
                   "for the abandon_hold histories, dropped at a stated later point; it is never resumed after the next connect()",)
    examples = {"quick": 2500, "thorough": 150000}

    def strategy(self, tier):
        a = st.fixed_dictionaries({
            "kind": st.sampled_from(A_KINDS), "frac": st.integers(0, 1000),
            "msgs": st.lists(gen.message(big=False), max_size=4), "end": st.sampled_from(["eof", "reset"]),
            "release": st.sampled_from(RELEASE_POINTS)})
        b = st.fixed_dictionaries({
            "msgs": st.lists(gen.message(big=False), max_size=5), "cmask": st.integers(0, 63),
            "viol": st.one_of(st.none(), st.none(), st.integers(0, 40)),
            "close": st.booleans(), "app_close": st.one_of(st.none(), st.none(), st.integers(0, 3)),
            "timers": st.booleans(), "idle": st.one_of(st.none(), st.integers(1, 12)),
            "seg": st.sampled_from(["whole", "whole", ["uniform", 3], ["uniform", 64]]),
            "deflate": gen.deflate_opt()})
        # the previous connections and B negotiate permessage-deflate independently (off / defaults / drawn parameters)
        # every connection of the chain is made through an HTTP proxy; a previous attempt may have ended inside the
        # proxy's answer ("pcut"), and B's proxy answer comes under its own segmentation
        proxy = gen.weighted([(3, st.none()), (1, st.fixed_dictionaries({
            "b_seg": st.sampled_from(["whole", "bytewise", ["uniform", 20], ["cuts", [12]]]),
            "pcut": st.lists(st.one_of(st.none(), st.integers(1, len(PROXY_200) - 1)), min_size=4, max_size=4)}))])
        app = gen.weighted([(2, st.none()), (1, st.fixed_dictionaries({
            "headers": st.lists(st.sampled_from(APP_HEADERS), max_size=3),
            "protocols": st.sampled_from([[], [], ["chat"], ["chat", "superchat"]]),
            "agent": st.sampled_from([None, None, "verif-agent/1.0"])}))])
        return st.fixed_dictionaries({"A": st.lists(a, min_size=1, max_size=4), "B": b, "deflate": gen.deflate_opt(),
                                      "proxy": proxy, "app": app,
                                      # the whole chain over TLS
                                      "tls": gen.weighted([(4, st.just(False)), (1, st.just(True))])})

    def enumerations(self, tier):
        def pairs():
            bs = [
                {"msgs": [{"kind": "text", "payload": ["str", "héllo €"], "frag": [3]}, {"kind": "ping", "payload": ["hex", "01"]}],
                 "cmask": 63, "viol": None, "close": True, "app_close": None, "timers": True, "idle": 6, "seg": "whole"},
                {"msgs": [{"kind": "binary", "payload": ["rep", 500, 7]}], "cmask": 63, "viol": 3, "close": False,
                 "app_close": 0, "timers": False, "idle": None, "seg": ["uniform", 3]},
            ]
            for kind in A_KINDS:
                for frac in (0, 130, 500, 999):
                    for deflate in (False, True, NON_DEFAULT):
                        for bi, b0 in enumerate(bs):
                          for bdef in (False, True, NON_DEFAULT_2, "same"):
                            b = dict(b0, deflate=deflate if bdef == "same" else bdef)
                            yield {"A": [{"kind": kind, "frac": frac, "msgs": [{"kind": "text", "payload": ["str", "prev"],
                                                                                 "frag": [2]}], "end": "eof"}],
                                   "B": b, "deflate": deflate}

        def held_generators():
            # abandoned at every event index 1..9 with the generator kept alive x every point of release
            b0 = {"msgs": [{"kind": "text", "payload": ["str", "h\u00e9llo"], "frag": [3]}, {"kind": "ping", "payload": ["hex", "01"]}],
                  "cmask": 0, "viol": None, "close": True, "app_close": None, "timers": False, "idle": 2, "seg": "whole",
                  "deflate": False}
            for frac in range(9):
                for release in sorted(set(RELEASE_POINTS), key=str):
                    for msgs in ([], [{"kind": "text", "payload": ["str", "prev"], "frag": [2]}]):
                        yield {"A": [{"kind": "abandon_hold", "frac": frac, "msgs": msgs, "end": "eof", "release": release}],
                               "B": b0, "deflate": False}
        def proxied():
            b0 = {"msgs": [{"kind": "text", "payload": ["str", "h\u00e9llo"], "frag": [3]}, {"kind": "ping", "payload": ["hex", "01"]}],
                  "cmask": 0, "viol": None, "close": True, "app_close": None, "timers": False, "idle": 2, "seg": "whole",
                  "deflate": False}
            prev = [{"kind": "text", "payload": ["str", "prev"], "frag": [2]}]
            for kind in A_KINDS:
                for b_seg in ("whole", "bytewise", ["cuts", [12]], ["cuts", [len(PROXY_200) - 2]]):
                    for pcut in (None, 1, 12, len(PROXY_200) - 1):
                        for end in ("eof", "reset"):
                            yield {"A": [{"kind": kind, "frac": 500, "msgs": prev, "end": end}], "B": b0, "deflate": False,
                                   "proxy": {"b_seg": b_seg, "pcut": [pcut]}}
            # two previous attempts: one through the whole tunnel, one that broke off inside the proxy's answer
            for first, second in ((None, 12), (12, None), (12, 30), (None, None)):
                for b_seg in ("whole", ["cuts", [12]]):
                    yield {"A": [{"kind": "server_close", "frac": 500, "msgs": prev, "end": "eof"},
                                 {"kind": "cut", "frac": 700, "msgs": prev, "end": "reset"}], "B": b0, "deflate": False,
                           "proxy": {"b_seg": b_seg, "pcut": [first, second]}}
        def configured_objects():
            # the application configured the object before the first connect(): every kind of previous ending x B
            b0 = {"msgs": [{"kind": "text", "payload": ["str", "h\u00e9llo"], "frag": [3]}, {"kind": "ping", "payload": ["hex", "01"]}],
                  "cmask": 0, "viol": None, "close": True, "app_close": None, "timers": False, "idle": 2, "seg": "whole",
                  "deflate": False}
            prev = [{"kind": "text", "payload": ["str", "prev"], "frag": [2]}]
            apps = [{"headers": [APP_HEADERS[0]], "protocols": [], "agent": None},
                    {"headers": APP_HEADERS[1:4], "protocols": ["chat", "superchat"], "agent": "verif-agent/1.0"},
                    {"headers": [], "protocols": ["chat"], "agent": "verif-agent/1.0"},
                    {"headers": [APP_HEADERS[0], APP_HEADERS[5]], "protocols": [], "agent": None}]
            for kind in A_KINDS:
                for app in apps:
                    for deflate in (False, True):
                        yield {"A": [{"kind": kind, "frac": 500, "msgs": prev, "end": "eof"}], "B": dict(b0, deflate=deflate),
                               "deflate": deflate, "app": app}
                        yield {"A": [{"kind": kind, "frac": 500, "msgs": prev, "end": "reset"}], "B": dict(b0, deflate=deflate),
                               "deflate": deflate, "app": app, "tls": True}
                        yield {"A": [{"kind": kind, "frac": 500, "msgs": prev, "end": "eof"},
                                     {"kind": "server_close", "frac": 500, "msgs": prev, "end": "reset"}],
                               "B": dict(b0, deflate=deflate), "deflate": deflate, "app": app}
        return [Enumeration("every_abnormal_ending_x_B", pairs, exhaustive=True),
                Enumeration("objects_configured_by_the_application", configured_objects, exhaustive=True),
                Enumeration("chains_through_a_proxy", proxied, exhaustive=True),
                Enumeration("generator_of_the_abandoned_connection_finalised_late", held_generators, exhaustive=True)]

    def run_case(self, case):
        deflate = case["deflate"]
        atts = [attempt_A(a, deflate) for a in case["A"]]
        deflate_b = case["B"].get("deflate", deflate)
        attB = attempt_B(case["B"], deflate_b)
        chainB = dict(attB)
        for i, a in enumerate(case["A"]):
            if a["kind"] == "abandon_hold":
                # the attempt after it says when the kept generator is finally dropped
                nxt = atts[i + 1] if i + 1 < len(atts) else chainB
                nxt["release_held"] = a.get("release", "after_connect")
        n = len(atts)
        keys = ["%032x" % (0x1000 + i) for i in range(n + 2)]
        ws_opts = {"compress": True} if (deflate or deflate_b) else None
        app = case.get("app")
        if app:
            # what the application configured on the object once (custom request headers, sub-protocols, agent)
            ws_opts = dict(ws_opts or {})
            if app.get("headers"):
                ws_opts["headers"] = [[n.encode().hex(), v.encode().hex()] for n, v in app["headers"]]
            if app.get("protocols"):
                ws_opts["protocols"] = list(app["protocols"])
            if app.get("agent"):
                ws_opts["agent"] = app["agent"]
        proxy = case.get("proxy")
        if proxy:
            ws_opts = dict(ws_opts or {}, proxies=PROXIES)
            atts = [through_proxy(a, cut=proxy["pcut"][i % len(proxy["pcut"])], end=case["A"][i].get("end", "eof"))
                    for i, a in enumerate(atts)]
            released = chainB.get("release_held")
            attB = through_proxy(attB, seg=proxy["b_seg"])
            chainB = dict(attB)
            if released is not None:
                chainB["release_held"] = released
        url = "wss://example.test/" if case.get("tls") else build.URL
        chain = {"url": url, "attempts": atts + [chainB], "keys": keys}
        fresh = {"url": url, "attempts": [attB], "keys": [keys[0], keys[n + 1]]}
        if ws_opts:
            chain["ws_opts"] = ws_opts
            fresh["ws_opts"] = ws_opts
        labels = {"A:" + a["kind"] for a in case["A"]}
        if proxy:
            labels.add("through_proxy")
            if any(c is not None for c in proxy["pcut"][:n]):
                labels.add("A:cut_inside_the_proxy_answer")
        # the fresh-object reference runs FIRST: whatever the chain leaves behind in the process cannot reach it
        ref = simnet.run_chain(fresh)[0]
        traces = simnet.run_chain(chain)
        trB = traces[-1]
        prev_ready = any("ready" in t.names() for t in traces[:-1])
        nontrivial = prev_ready and "ready" in ref.names()
        for t in traces + [ref]:
            if t.hang:
                return failed("hang", t.hang, labels, nontrivial)
            if t.escaped:
                return failed("escaped_exception", t.escaped, labels, nontrivial)
        nb, nr = normalise(trB), normalise(ref)
        for what, x, y in zip(("events", "client writes", "how it ended", "application call results"), nb, nr):
            if x != y:
                i = next((i for i in range(min(len(x), len(y))) if x[i] != y[i]), min(len(x), len(y))) \
                    if isinstance(x, list) else 0
                xs = x[i] if isinstance(x, list) and i < len(x) else x if not isinstance(x, list) else None
                ys = y[i] if isinstance(y, list) and i < len(y) else y if not isinstance(y, list) else None
                return failed("state_leaked_across_connects",
                              "%s of the connection after %s differ from a fresh object's at #%d: reused %s | fresh %s" % (
                                  what, [a["kind"] for a in case["A"]], i, _clip(xs), _clip(ys)), labels, nontrivial)
        # keys: the k-th connect must use the k-th key drawn after construction
        for i, t in enumerate(traces):
            k = request_key(t)
            if k is None:
                continue
            import base64
            want = base64.b64encode(bytes.fromhex(keys[i + 1]))
            if k != want:
                return failed("stale_key", "connect #%d sent key %r, the key drawn for it was %r" % (i, k, want),
                              labels, nontrivial)
        return held(labels, nontrivial)


def _clip(x):
    s = repr(x)
    return s if len(s) < 400 else s[:400] + "..."


PROP = C17()
