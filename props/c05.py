"""C05 - text is delivered if and only if it is strictly valid UTF-8."""
import struct

from hypothesis import strategies as st

from harness import build, gen, simnet, wire, utf8ref, httpref, deflateref
from harness.runner import Prop, Enumeration, held, failed, after_every_prelude, with_noise, with_companion, with_debug_log
from props.c01 import effective_seg
from props.c04 import deflate_reply

_PREFIXES = None

CATALOGUE = [
    "eda080", "edbfbf", "f4908080", "c0af", "c1bf", "e08080", "e09fbf", "f0808080", "f08fbfbf",
    "f5808080", "f8888080", "80", "bf", "fe", "ff", "c2", "e0a0", "e182", "f090", "f09080", "f48f",
    "c328", "e228a1", "e28228", "f0288cbc", "f09028bc", "edb080", "c080", "efbfbe", "f48fbfbf",
    "ed9fbf", "ee8080", "f0908080", "e0a080", "c280", "dfbf",
]


# ---------------------------------------------------------------------------
# layer 1: validator automaton

def prefixes():
    """Every strict prefix of a well-formed UTF-8 character (17652 incl. empty)."""
    global _PREFIXES
    if _PREFIXES is not None:
        return _PREFIXES
    out = [b""]
    for a in range(256):
        s1 = utf8ref.step(utf8ref.START, a)
        if s1 in (utf8ref.REJECT, utf8ref.START):
            continue
        out.append(bytes([a]))
        for b in range(256):
            s2 = utf8ref.step(s1, b)
            if s2 in (utf8ref.REJECT, utf8ref.START):
                continue
            out.append(bytes([a, b]))
            for c in range(256):
                s3 = utf8ref.step(s2, c)
                if s3 in (utf8ref.REJECT, utf8ref.START):
                    continue
                out.append(bytes([a, b, c]))
    _PREFIXES = out
    return out


def check_validator_blackbox(unit):
    """unit = ["short"] (empty and 1-byte prefixes) or [a, lo, hi] (prefixes of >= 2 bytes
    starting with byte a and a second byte in lo..hi-1): x 256 next bytes x every 2-chunk
    split, compare Utf8Validator.validate with utf8ref."""
    from lomond.utf8validator import Utf8Validator
    n = 0
    for p in prefixes():
        if unit[0] == "short":
            if len(p) > 1:
                continue
        elif len(p) < 2 or p[0] != unit[0] or not (unit[1] <= p[1] < unit[2]):
            continue
        for b in range(256):
            s = p + bytes([b])
            st_ref, _ = utf8ref.run(s)
            want_valid = st_ref != utf8ref.REJECT
            want_end = st_ref == utf8ref.START
            for cut in range(0, len(s)):
                v = Utf8Validator()
                ok = True
                ends = True
                for chunk in ((s[:cut], s[cut:]) if cut else (s,)):
                    valid, ends, _, _ = v.validate(chunk)
                    if not valid:
                        ok = False
                        break
                n += 1
                if ok != want_valid or (ok and bool(ends) != want_end):
                    return n, "validate(%s split at %d): valid=%r ends=%r, RFC 3629 says valid=%r ends=%r" % (
                        s.hex(), cut, ok, ends, want_valid, want_end)
    return n, None


def product_bfs():
    """Breadth-first product of lomond's validator state with the reference
    recogniser's state over all 256 bytes.  Returns (states, transitions, problem)."""
    from lomond.utf8validator import Utf8Validator
    v = Utf8Validator()
    if not hasattr(v, "_state"):
        return 0, 0, None   # refactored validator: the black-box sweep still decides
    start = (v._state, utf8ref.START)
    seen = {start}
    todo = [start]
    transitions = 0
    while todo:
        ls, rs = todo.pop()
        for b in range(256):
            v.reset()
            v._state = ls
            valid, ends, _, _ = v.validate(bytes([b]))
            rs2 = utf8ref.step(rs, b)
            transitions += 1
            if (rs2 == utf8ref.REJECT) != (not valid):
                return len(seen), transitions, (
                    "in state (lomond %r, ref %s) byte %02x: lomond valid=%r, reference %s" % (
                        ls, utf8ref.STATE_NAMES[rs], b, valid,
                        "rejects" if rs2 == utf8ref.REJECT else "accepts"))
            if valid:
                if bool(ends) != (rs2 == utf8ref.START):
                    return len(seen), transitions, (
                        "in state (lomond %r, ref %s) byte %02x: ends-on-code-point=%r, reference state %s" % (
                            ls, utf8ref.STATE_NAMES[rs], b, ends, utf8ref.STATE_NAMES[rs2]))
                nxt = (v._state, rs2)
                if nxt not in seen:
                    seen.add(nxt)
                    todo.append(nxt)
    return len(seen), transitions, None


# ---------------------------------------------------------------------------
# layers 2 and 3

def payload_of(case):
    """bytes of the (maybe invalid) text payload described by the case."""
    base = case["base"]
    if base[0] == "hex":
        data = bytearray(bytes.fromhex(base[1]))
    elif base[0] == "fill":
        # ["fill", nbytes]: valid text of exactly nbytes bytes, three-byte characters throughout (padded with "a")
        data = bytearray(("\u20ac" * (base[1] // 3)).encode("utf-8") + b"a" * (base[1] % 3))
    else:
        data = bytearray(build.expand_text(base).encode("utf-8"))
    for pos, what in case.get("edits", []):
        if what[0] == "ins":
            p = pos % (len(data) + 1)
            data[p:p] = bytes.fromhex(CATALOGUE[what[1] % len(CATALOGUE)])
        elif what[0] == "trunc":
            if data:
                del data[len(data) - 1 - (what[1] % min(3, len(data))):]
        elif what[0] == "set":
            if data:
                data[pos % len(data)] = what[1]
    return bytes(data)


def frames_for(payload, case, rsv1=0):
    """[(frame bytes, payload offset of its first byte or None for control)]"""
    cuts = sorted(min(max(c, 0), len(payload)) for c in case.get("frag", []))
    pieces = []
    last = 0
    for c in cuts:
        pieces.append((last, payload[last:c]))
        last = c
    pieces.append((last, payload[last:]))
    inter = {}
    for after, kind in case.get("inter", []):
        inter.setdefault(after % len(pieces), []).append(kind)
    out = []
    for i, (off, piece) in enumerate(pieces):
        fin = 1 if i == len(pieces) - 1 else 0
        op = wire.TEXT if i == 0 else wire.CONT
        out.append((wire.build_frame(op, piece, fin=fin, rsv1=rsv1 if i == 0 else 0), off, len(piece)))
        if not fin:
            for kind in inter.get(i, []):
                out.append((wire.build_frame(wire.PING if kind == "ping" else wire.PONG, b"ctl"), None, 0))
    return out


class C05(Prop):
    id = "C05"
    level = "exploration"
    rule = ("layer 1 (exhaustive): product automaton of lomond's validator state x an independent RFC 3629 "
            "recogniser over all 256 bytes from the start state (every reachable pair), plus a black-box sweep of all "
            "17652 strict prefixes of well-formed characters x 256 next bytes x every 2-chunk split; layer 2 "
            "(Hypothesis): payloads = valid text with 0-3 edits from a boundary catalogue / raw bytes, sent as a text "
            "message (fragmented at arbitrary byte offsets, control frames interleaved, any read segmentation; plain, "
            "or with permessage-deflate negotiated: uncompressed and compressed carriage) or as a close reason; "
            "delivered iff utf8ref says valid, with the exact decoding; layer 3: for invalid payloads without "
            "compression the stream is cut right after the first offending byte and the ProtocolError must appear "
            "before the client idles. Non-trivial = invalid payload, or a valid one with a multi-byte character "
            "split across frames or reads.")
    assumptions = ("harness/utf8ref.py transcribes RFC 3629 section 4 correctly (self-tested against CPython's strict "
                   "decoder on a boundary table and on all 65536 two-byte strings)",)
    examples = {"quick": 3000, "thorough": 150000}

    def selftest(self):
        assert len(prefixes()) == 17652

    # -- enumerations ------------------------------------------------------------
    def enumerations(self, tier):
        def groups():
            yield {"layer": "product"}
            # black-box sweep split into work units by first byte / second-byte range
            yield {"layer": "blackbox", "unit": ["short"]}
            for a in range(0xC2, 0xF5):
                for lo in range(0x80, 0xC0, 8):
                    yield {"layer": "blackbox", "unit": [a, lo, lo + 8]}
        battery = [
            # valid text (all UTF-8 lengths), whole and split inside characters; an invalid one
            {"base": ["str", "a\u00e9\u20ac\U0001f600z"], "edits": [], "frag": [], "inter": [], "carriage": "plain",
             "seg": "whole", "before": []},
            {"base": ["str", "a\u00e9\u20ac\U0001f600z"], "edits": [], "frag": [2, 4, 7], "inter": [[1, "ping"]],
             "carriage": "plain", "seg": "bytewise", "before": ["text"]},
            {"base": ["hex", "61c328"], "edits": [], "frag": [], "inter": [], "carriage": "plain", "seg": "whole", "before": []},
            {"base": ["str", "bye \u20ac"], "edits": [], "frag": [], "inter": [], "carriage": "close_reason", "seg": "whole",
             "before": []},
        ]
        def special_code_points():
            # "the delivered string is its exact decoding": code points that codecs and text tools treat specially
            # (BOM / byte-order marks, line and paragraph separators, NUL, noncharacters ...) alone, doubled, first,
            # in the middle and last; whole, split inside the character, and after an empty first fragment
            for ch in gen.SPECIAL_CHARS:
                for text in (ch, ch + ch, ch + "{\"a\": 1}", "x" + ch + "y", "end" + ch):
                    for carriage in ("plain", "plain_offered", "deflate_uncompressed", "deflate_compressed", "close_reason"):
                        for frag, seg in (([], "whole"), ([1], "whole"), ([0, 2], "bytewise")):
                            yield {"base": ["str", text], "edits": [], "frag": frag, "inter": [], "carriage": carriage,
                                   "seg": seg, "before": []}
        def length_classes():
            # every frame length class (7-bit, 16-bit and 64-bit length forms and their borders): valid text whole and
            # with the first fragment of that length ending inside a character; one invalid byte first / middle / last
            # (layer 3 then checks it is reported as soon as it has arrived, however long the frame)
            sizes = [125, 126, 127, 65535, 65536, 65537, 70000, 131072]
            for carriage in ("plain", "plain_offered", "deflate_uncompressed"):
                for n in sizes:
                    yield {"base": ["fill", n], "edits": [], "frag": [], "inter": [], "carriage": carriage, "seg": "whole",
                           "before": []}
                    for pos in (0, n // 2, n - 1):
                        yield {"base": ["fill", n], "edits": [[pos, ["set", 0xff]]], "frag": [], "inter": [],
                               "carriage": carriage, "seg": "whole", "before": ["text"]}
                    for tail in (2, 11):
                        yield {"base": ["fill", n + tail], "edits": [], "frag": [n], "inter": [[0, "ping"]][:tail % 2],
                               "carriage": carriage, "seg": "whole", "before": []}
                        for pos in (n - 1, n + 1):
                            yield {"base": ["fill", n + tail], "edits": [[pos, ["set", 0xc0]]], "frag": [n], "inter": [],
                                   "carriage": carriage, "seg": "whole", "before": []}
        return [Enumeration("validator_automaton", groups, exhaustive=True), after_every_prelude(battery),
                Enumeration("frame_length_classes", length_classes, exhaustive=True),
                with_noise(battery), with_companion(battery), with_debug_log(battery),
                Enumeration("special_code_points_exact_decoding", special_code_points, exhaustive=True)]

    # -- hypothesis ----------------------------------------------------------------
    def strategy(self, tier):
        edit = st.tuples(st.integers(0, 5000), st.one_of(
            st.tuples(st.just("ins"), st.integers(0, len(CATALOGUE) - 1)).map(list),
            st.tuples(st.just("trunc"), st.integers(0, 2)).map(list),
            st.tuples(st.just("set"), st.sampled_from([0x80, 0xbf, 0xc0, 0xc1, 0xed, 0xf4, 0xf5, 0xff, 0x41])).map(list),
        )).map(list)
        base = st.one_of(gen.text_spec(big=False),
                         st.binary(max_size=24).map(lambda b: ["hex", b.hex()]),
                         st.sampled_from(CATALOGUE).map(lambda h: ["hex", h]))
        return st.fixed_dictionaries({
            "base": base,
            "edits": st.lists(edit, max_size=3),
            "frag": gen.frag_cuts(max_pos=3000),
            "inter": st.lists(st.tuples(st.integers(0, 8), st.sampled_from(["ping", "pong"])).map(list), max_size=2),
            # ("plain_offered": the client offered permessage-deflate, the server did not accept it - the connection is
            # an uncompressed one in every respect)
            "carriage": st.sampled_from(["plain", "plain", "plain", "plain_offered", "deflate_uncompressed",
                                         "deflate_compressed", "close_reason"]),
            "seg": gen.segmentation(),
            # an earlier connection in this process (same WebSocket object or another) and how it ended
            "prelude": gen.prelude(),
            # a second live connection in the same process (interleaved with this one, or blocked in a send)
            "companion": gen.companion(),
            # calls with unsendable arguments that the application tries (and whose error it catches) on the way
            "noise_calls": gen.noise_calls(),
            # the application has switched on DEBUG logging for the library
            "debug_log": gen.debug_log(),
            # connect() options that must not matter here
            "copts_noise": gen.copts_noise(),
            "before": st.lists(st.sampled_from(["text", "binary", "fragtext"]), max_size=2),
        })

    def run_case(self, case):
        if "layer" in case:
            return self.run_layer1(case)
        payload = payload_of(case)
        carriage = case["carriage"]
        if carriage == "close_reason":
            payload = payload[:123]
        valid = utf8ref.is_valid(payload)
        k = utf8ref.first_offending_index(payload)
        labels = {"carriage:" + carriage, "valid" if valid else ("invalid_byte" if k is not None else "invalid_truncated")}
        deflate = carriage.startswith("deflate")
        # a few ordinary messages first, so that the validator has history
        pre = bytearray()
        pre_events = []
        for kind in case.get("before", []):
            if kind == "text":
                pre += wire.build_frame(wire.TEXT, "päß€😀".encode("utf-8"))
                pre_events.append("text")
            elif kind == "binary":
                pre += wire.build_frame(wire.BINARY, b"\xff\xfe")
                pre_events.append("binary")
            else:
                raw = "a€b".encode("utf-8")
                pre += wire.build_frame(wire.TEXT, raw[:2], fin=0) + wire.build_frame(wire.CONT, raw[2:])
                pre_events.append("text")
        if carriage == "close_reason":
            frames = [(wire.build_frame(wire.CLOSE, struct.pack("!H", 1000) + payload), None, 0)]
        elif carriage == "deflate_compressed":
            body = deflateref.Peer().compress(payload)
            frames = frames_for(body, case, rsv1=1)
        else:
            frames = frames_for(payload, case)
        split_char = False
        if valid and carriage in ("plain", "plain_offered", "deflate_uncompressed"):
            for fb, off, ln in frames:
                if off is not None and 0 < off < len(payload) and (payload[off] & 0xC0) == 0x80:
                    split_char = True
        data = bytes(pre) + b"".join(f[0] for f in frames)
        reply = deflate_reply() if deflate else None
        reply_len = len(httpref.build_reply(reply, b""))
        seg = effective_seg(case["seg"], reply_len + len(data))
        if split_char:
            labels.add("char_split_across_frames")
        if len(frames) > 1:
            labels.add("fragmented")
        if any(f[1] is None for f in frames) and carriage != "close_reason":
            labels.add("control_interleaved")
        nontrivial = (not valid) or split_char
        scn = build.scenario(
            [["wait_request"], ["stream", [["reply", reply], ["bytes", data]], seg, 0.0], ["eof", 0.0]],
            ws_opts={"compress": True} if (deflate or carriage == "plain_offered") else None)
        tr = simnet.run_scenario(scn)
        names = tr.names()
        if tr.hang:
            return failed("hang", tr.hang, labels, nontrivial)
        if tr.escaped:
            return failed("escaped_exception", tr.escaped, labels, nontrivial)
        want_name = "closing" if carriage == "close_reason" else "text"
        got_pre = [n for n in names if n in ("text", "binary")][:len(pre_events)]
        if got_pre != pre_events:
            return failed("delivery_mismatch", "messages before the probe: %s, expected %s" % (got_pre, pre_events),
                          labels, nontrivial)
        probe = [e for e in tr.events if e["name"] == want_name][(pre_events.count("text") if want_name == "text" else 0):]
        pes = [e for e in tr.events if e["name"] == "protocol_error"]
        if valid:
            text = utf8ref.decode(payload)
            if len(probe) != 1 or pes:
                return failed("valid_text_not_delivered",
                              "valid UTF-8 %s (%s) gave events %s, errors %s" % (
                                  payload[:40].hex(), carriage, names, [p.get("error") for p in pes]),
                              labels, nontrivial)
            got = probe[0].get("text") if want_name == "text" else probe[0].get("reason")
            if got != text:
                return failed("wrong_decoding", "payload %s decoded as %r, expected %r" % (
                    payload[:40].hex(), got[:40] if got else got, text[:40]), labels, nontrivial)
        else:
            if probe:
                return failed("invalid_text_delivered",
                              "invalid UTF-8 %s (%s) was delivered as %r; events %s" % (
                                  payload[:40].hex(), carriage,
                                  probe[0].get("text", probe[0].get("reason")), names), labels, nontrivial)
            if len(pes) != 1:
                return failed("no_protocol_error", "invalid UTF-8 %s (%s): %d ProtocolError events; events %s" % (
                    payload[:40].hex(), carriage, len(pes), names), labels, nontrivial)
        # layer 3: fail fast
        if (not valid) and k is not None and carriage in ("plain", "plain_offered"):
            labels.add("failfast_checked")
            upto = len(pre)
            for fb, off, ln in frames:
                if off is not None and off <= k < off + ln:
                    upto += len(fb) - ln + (k - off) + 1
                    break
                upto += len(fb)
            cut = data[:upto]
            seg2 = effective_seg(case["seg"], reply_len + len(cut))
            scn2 = build.scenario(
                [["wait_request"], ["stream", [["reply", None], ["bytes", cut]], seg2, 0.0]],
                connect_opts={"poll": 5.0, "ping_rate": 0}, horizon=1.0,
                ws_opts={"compress": True} if carriage == "plain_offered" else None)
            tr2 = simnet.run_scenario(scn2)
            if tr2.hang:
                return failed("hang", tr2.hang, labels, nontrivial)
            if tr2.escaped:
                return failed("escaped_exception", tr2.escaped, labels, nontrivial)
            n2 = tr2.names()
            if "protocol_error" not in n2:
                interleaved = "control_interleaved" in labels and any(
                    f[1] is None for f in frames[:self._frame_index(frames, k)])
                sig = "failfast_lost_after_interleaved_control" if interleaved else "failfast_lost"
                return failed(sig,
                              "offending byte %d of %s has arrived (%d stream bytes, then silence) but no ProtocolError "
                              "before the client idles; events %s" % (k, payload[:40].hex(), upto, n2),
                              labels, nontrivial)
            if "text" in n2[len(pre_events) + 3:] and n2.count("text") > pre_events.count("text"):
                return failed("invalid_text_delivered", "events %s" % n2, labels, nontrivial)
        return held(labels, nontrivial)

    @staticmethod
    def _frame_index(frames, k):
        for i, (fb, off, ln) in enumerate(frames):
            if off is not None and off <= k < off + ln:
                return i
        return len(frames)

    def run_layer1(self, case):
        if case["layer"] == "product":
            states, transitions, problem = product_bfs()
            labels = {("product_states", states), ("product_transitions", transitions)}
            if problem:
                return failed("validator_disagrees_with_rfc3629", problem, labels, True)
            return held(labels, True)
        n, problem = check_validator_blackbox(case["unit"])
        labels = {("blackbox_validate_verdicts", n)}
        if problem:
            return failed("validator_disagrees_with_rfc3629", problem, labels, True)
        return held(labels, True)


PROP = C05()
