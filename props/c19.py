"""C19 - with a proxy configured, nothing is sent to the target before the tunnel is up."""
from hypothesis import strategies as st

from harness import build, gen, simnet, wire, httpref
from harness.runner import Prop, Enumeration, held, failed

B = wire.build_frame

PROXY_HOSTS = ["proxy.test", "10.0.0.9", "squid.corp.example"]
TARGET_HOSTS = ["example.test", "ws.service.example", "127.0.0.1", "[::1]", "[2001:db8::7]"]

REPLIES = [
    # (name, bytes or None for 'built', is a complete 200?)
    ("200_established", b"HTTP/1.1 200 Connection established\r\n\r\n", True),
    ("200_ok_http10", b"HTTP/1.0 200 OK\r\n\r\n", True),
    ("200_headers", b"HTTP/1.1 200 OK\r\nVia: 1.1 squid\r\nProxy-Agent: x/1\r\nX-A:  b \r\n\r\n", True),
    ("200_no_reason", b"HTTP/1.1 200\r\n\r\n", True),
    ("200_long_reason", b"HTTP/1.1 200 " + b"tunnel " * 40 + b"\r\n\r\n", True),
    ("201", b"HTTP/1.1 201 Created\r\n\r\n", False),
    ("204", b"HTTP/1.1 204 No Content\r\n\r\n", False),
    ("301", b"HTTP/1.1 301 Moved\r\nLocation: http://x/\r\n\r\n", False),
    ("400", b"HTTP/1.1 400 Bad Request\r\n\r\n", False),
    ("403", b"HTTP/1.1 403 Forbidden\r\nContent-Length: 0\r\n\r\n", False),
    ("407", b"HTTP/1.1 407 Proxy Authentication Required\r\nProxy-Authenticate: Basic realm=\"x\"\r\n\r\n", False),
    ("502", b"HTTP/1.1 502 Bad Gateway\r\n\r\n", False),
    ("407_format_chars", b"HTTP/1.1 407 {0} %s {x!r}\r\nProxy-Authenticate: {} %d\r\n\r\n", False),
    ("200_format_chars", b"HTTP/1.1 200 {0} %s {x!r}\r\nVia: {} %d\r\n\r\n", True),
    ("2000", b"HTTP/1.1 2000 Weird\r\n\r\n", False),
    ("20", b"HTTP/1.1 20 Short\r\n\r\n", False),
    ("200OK_glued", b"HTTP/1.1 200OK\r\n\r\n", False),
    ("200.0", b"HTTP/1.1 200.0 OK\r\n\r\n", False),
    # status tokens that are not the three digits "200" although a lenient number parser reads 200 out of them
    ("+200", b"HTTP/1.1 +200 OK\r\n\r\n", False),
    ("0200", b"HTTP/1.1 0200 OK\r\n\r\n", False),
    ("2_0_0", b"HTTP/1.1 2_0_0 OK\r\n\r\n", False),
    # control characters that str.split() - unlike bytes.split() and HTTP - treats as white space
    ("us_before_200", b"HTTP/1.1\x1f200 OK\r\n\r\n", False),
    ("rs_between_200_and_407", b"HTTP/1.1 200\x1e407 Proxy Authentication Required\r\n\r\n", False),
    ("fs_after_200", b"HTTP/1.1 200\x1c OK\r\n\r\n", False),
    ("gs_before_200", b"HTTP/1.1 \x1d200 OK\r\n\r\n", False),
    ("200;x", b"HTTP/1.1 200;x OK\r\n\r\n", False),
    ("299", b"HTTP/1.1 299 Custom Success\r\n\r\n", False),
    ("202", b"HTTP/1.1 202 Accepted\r\n\r\n", False),
    ("100_then_nothing", b"HTTP/1.1 100 Continue\r\n\r\n", False),
    # answers of TWO header blocks: the proxy's answer is the first one, and it is not a 200
    ("100_then_407", b"HTTP/1.1 100 Continue\r\n\r\nHTTP/1.1 407 Proxy Authentication Required\r\n\r\n", False),
    ("100_then_502", b"HTTP/1.1 100 Continue\r\nVia: x\r\n\r\nHTTP/1.1 502 Bad Gateway\r\nContent-Length: 0\r\n\r\n", False),
    ("100_then_200", b"HTTP/1.1 100 Continue\r\n\r\nHTTP/1.1 200 Connection established\r\n\r\n", False),
    ("102_then_403", b"HTTP/1.1 102 Processing\r\n\r\nHTTP/1.1 403 Forbidden\r\n\r\n", False),
    ("103_then_100_then_407", b"HTTP/1.1 103 Early Hints\r\nLink: </x>\r\n\r\nHTTP/1.1 100 Continue\r\n\r\n"
                              b"HTTP/1.1 407 Proxy Authentication Required\r\n\r\n", False),
    ("101_then_200", b"HTTP/1.1 101 Switching Protocols\r\nUpgrade: websocket\r\n\r\nHTTP/1.1 200 OK\r\n\r\n", False),
    ("407_then_200", b"HTTP/1.1 407 Proxy Authentication Required\r\n\r\nHTTP/1.1 200 Connection established\r\n\r\n", False),
    ("204_then_200", b"HTTP/1.1 204 No Content\r\n\r\nHTTP/1.1 200 OK\r\n\r\n", False),
    ("garbage", b"\x16\x03\x01\x02\x00\x01\x00\x01\xfc\x03\x03" + b"\xaa" * 60 + b"\r\n\r\n", False),
    ("not_http", b"SSH-2.0-OpenSSH_8.9\r\n\r\n", False),
    ("empty", b"", False),
    ("unterminated", b"HTTP/1.1 200 Connection established\r\nVia: x\r\n", False),
    ("only_crlf", b"\r\n\r\n", False),
    ("oversized_200", b"HTTP/1.1 200 OK\r\nX-Pad: " + b"p" * 17000 + b"\r\n\r\n", False),
]
def _padded_200(size):
    head = b"HTTP/1.1 200 Connection established\r\nX-Pad: "
    return head + b"p" * (size - len(head) - 4) + b"\r\n\r\n"


# 200 answers whose header block is 16378..16390 bytes long: a tunnel up to 16384, too large beyond
PADDED_SIZES = list(range(16378, 16391))
REPLIES += [("200_padded_%d" % n, _padded_200(n), n <= 16384) for n in PADDED_SIZES]
REPLY_BY_NAME = {n: (b, ok) for n, b, ok in REPLIES}


def proxy_url(p):
    s = p["scheme"] + "://"
    if p.get("user"):
        s += p["user"]
        if p.get("password") is not None:
            s += ":" + p["password"]
        s += "@"
    s += p["host"]
    if p.get("port") is not None:
        s += ":%d" % p["port"]
    return s


# credentials in the proxy URL: reserved characters are percent-encoded there (the authority ends at the first literal
# "/", "?" or "#", the userinfo at the last "@")
CRED_USERS = ["bob", "a.user", "u%40x", "CORP%2Falice", "a%231", "who%3F", "100%25", "%41lice"]
CRED_PASSWORDS = ["secret", "", "p:w", "p%40ss", "8080%2Ftcp", "what%3F", "x%23y", "50%25%3A"]
N_ENV_NOISE = 6


def env_noise(i, host):
    """Variables that generic HTTP tooling consults (exemption lists, lower-case spellings, a catch-all proxy)."""
    bare = host.strip("[]")
    other = "http://other-proxy.invalid:1"
    return [{},
            {"NO_PROXY": "*", "no_proxy": "*"},
            {"no_proxy": bare, "NO_PROXY": bare},
            {"NO_PROXY": ".test,.example,localhost,127.0.0.1,::1,2001:db8::7", "no_proxy": ".test,.example,localhost,127.0.0.1,::1"},
            {"http_proxy": other, "https_proxy": other, "ALL_PROXY": "socks5://other-proxy.invalid:2",
             "all_proxy": "socks5://other-proxy.invalid:2", "ws_proxy": other, "wss_proxy": other},
            {"REQUESTS_CA_BUNDLE": "/nonexistent", "NO_PROXY": bare + ":80," + bare + ":443"}][i % N_ENV_NOISE]


class C19(Prop):
    id = "C19"
    level = "fault_enumeration"
    rule = ("optionally with another application thread calling a send method while the connecting thread is blocked in "
            "getaddrinfo / connect / recv of the proxy's answer / the TLS handshake (it must be refused and write nothing); "
            "optionally after an earlier attempt through the proxy (same or another WebSocket object; its reply complete or cut "
            "short; ended by EOF or reset): proxies mapping (http only / https only / both / empty / None with HTTP_PROXY, HTTPS_PROXY set or unset), ws / wss "
            "target with default or explicit port, proxy URL shapes (http/https, with/without port, user, user:password), 20 proxy "
            "reply classes (200 variants, other 2xx/3xx/4xx/5xx, garbage, empty, unterminated, oversized) followed by EOF or silence, "
            "every segmentation of the reply, and a fault at each proxy-socket call (resolve, connect, sendall, each recv). Oracle "
            "over the ordered socket log: connect goes to the proxy's host/port; first write is one CONNECT whose target is exactly "
            "<target host>:<target port>; nothing else is written until a complete 200 reply has been read; iff 200: the WebSocket "
            "GET follows on the same (for wss: TLS-wrapped) socket and Connected.proxy is the configured URL; otherwise ConnectFail "
            "and 'GET ' never appears in any write; ws uses the 'http' entry, wss the 'https' entry, empty mapping = direct. "
            "Non-trivial = reply split across >= 2 reads, or non-200, or a fault.")
    assumptions = ("the proxy's reply is complete before any tunnelled byte is sent (TLS/WebSocket need a round trip first)",)
    examples = {"quick": 4000, "thorough": 200000}

    def strategy(self, tier):
        proxy = st.fixed_dictionaries({
            "scheme": st.sampled_from(["http", "http", "https"]), "host": st.sampled_from(PROXY_HOSTS),
            "port": st.one_of(st.none(), st.sampled_from([3128, 8080, 80, 443, 1])),
            "user": st.one_of(st.none(), st.none(), st.sampled_from(CRED_USERS)),
            "password": st.one_of(st.none(), st.sampled_from(CRED_PASSWORDS)),
        })
        return st.fixed_dictionaries({
            "secure": st.booleans(),
            "host": st.sampled_from(TARGET_HOSTS),
            "port": st.one_of(st.none(), st.sampled_from([80, 443, 9001, 8443])),
            "mapping": st.sampled_from(["http", "https", "both", "both", "both", "empty", "env_set", "env_unset",
                                        "other_scheme_only"]),
            "proxy": proxy, "proxy2": proxy,
            "reply": st.sampled_from([n for n, _, _ in REPLIES] + ["200_established"] * 6),
            "after": st.sampled_from(["eof", "silence"]),
            "seg": gen.segmentation(max_len=400),
            "fault": st.one_of(st.none(), st.none(), st.tuples(st.sampled_from(["resolve", "connect", "send", "recv"]),
                                                               st.integers(0, 3),
                                                               st.sampled_from(["reset", "timeout", "exc"])).map(list)),
            # ANOTHER application thread calls a send method while the connecting thread is blocked in a system call
            # (name resolution, TCP connect, reading the proxy's answer, TLS handshake): refused, nothing written
            "during": gen.weighted([(3, st.none()), (1, st.fixed_dictionaries({
                "op": st.sampled_from(["getaddrinfo", "connect", "recv", "recv", "wrap"]), "n": st.integers(0, 2),
                "do": st.sampled_from([["send_text", "too early"], ["send_binary", "00ff"], ["ping", "70"], ["pong", ""]])}))]),
            # an EARLIER connection attempt through the proxy (same WebSocket object or another one): the proxy's
            # answer then, possibly cut short, and how that connection ended
            "earlier": gen.weighted([(3, st.none()), (1, st.fixed_dictionaries({
                "reply": st.sampled_from([n for n, _, _ in REPLIES]), "cut": st.one_of(st.none(), st.integers(0, 120)),
                "end": st.sampled_from(["eof", "reset"]), "same": st.booleans()}))]),
            # other proxy-related variables in the PROCESS environment (see env_noise): with an explicit mapping the
            # mapping alone says whether and which proxy is used
            "env_noise": gen.weighted([(3, st.just(0)), (2, st.integers(0, N_ENV_NOISE - 1))]),
        })

    def enumerations(self, tier):
        def every_cut():
            # every single cut position and every uniform chunk size of two replies
            for name in ("200_headers", "403"):
                n = len(REPLY_BY_NAME[name][0])
                for secure in (False, True):
                    for seg in [["cuts", [c]] for c in range(1, n)] + [["uniform", k] for k in range(1, n + 1)]:
                        yield {"secure": secure, "host": "example.test", "port": None, "mapping": "both",
                               "proxy": {"scheme": "http", "host": "proxy.test", "port": 3128, "user": None, "password": None},
                               "proxy2": {"scheme": "http", "host": "squid.corp.example", "port": None, "user": "bob",
                                          "password": "secret"},
                               "reply": name, "after": "eof", "seg": seg, "fault": None}

        def every_reply():
            for name, _, _ in REPLIES:
                for secure in (False, True):
                    for after in ("eof", "silence"):
                        for pscheme in ("http", "https"):
                            yield {"secure": secure, "host": "example.test", "port": 9001, "mapping": "both",
                                   "proxy": {"scheme": pscheme, "host": "proxy.test", "port": None, "user": None, "password": None},
                                   "proxy2": {"scheme": pscheme, "host": "10.0.0.9", "port": 8080, "user": None, "password": None},
                                   "reply": name, "after": after, "seg": "bytewise", "fault": None}
        def after_earlier_attempt():
            for ename in ("200_established", "200_headers", "407", "403", "unterminated", "garbage"):
                n = len(REPLY_BY_NAME[ename][0])
                first_line = REPLY_BY_NAME[ename][0].find(b"\r\n") + 2
                for cut in sorted({None, first_line, first_line + 3, n - 2} - {0}, key=lambda c: (c is None, c)):
                    for end in ("eof", "reset"):
                        for same in (True, False):
                            for name in ("200_established", "200_headers", "407", "403", "empty"):
                                for secure in (False, True):
                                    yield {"secure": secure, "host": "example.test", "port": None, "mapping": "both",
                                           "proxy": {"scheme": "http", "host": "proxy.test", "port": 3128, "user": None,
                                                     "password": None},
                                           "proxy2": {"scheme": "http", "host": "squid.corp.example", "port": None,
                                                      "user": None, "password": None},
                                           "reply": name, "after": "eof", "seg": "whole", "fault": None,
                                           "earlier": {"reply": ename, "cut": cut, "end": end, "same": same}}
        def limit_and_terminator():
            # 200 answers around the 16 KiB limit, in two segments cut at each of the last positions of the block
            for n in PADDED_SIZES:
                for back in (0, 1, 2, 3, 4, 5, 7, 1024, 1025):
                    for secure in (False, True):
                        yield {"secure": secure, "host": "example.test", "port": None, "mapping": "both",
                               "proxy": {"scheme": "http", "host": "proxy.test", "port": 3128, "user": None, "password": None},
                               "proxy2": {"scheme": "http", "host": "squid.corp.example", "port": None, "user": None,
                                          "password": None},
                               "reply": "200_padded_%d" % n, "after": "eof", "seg": ["cuts", [n - back]] if back else "whole",
                               "fault": None}

        def sends_while_connecting():
            for op in ("getaddrinfo", "connect", "recv", "wrap"):
                for k in (0, 1):
                    for do in (["send_text", "too early"], ["send_binary", "00ff"], ["ping", "70"]):
                        for name in ("200_established", "407", "unterminated"):
                            for secure in (False, True):
                                for seg in ("whole", "bytewise"):
                                    yield {"secure": secure, "host": "example.test", "port": None, "mapping": "both",
                                           "proxy": {"scheme": "http", "host": "proxy.test", "port": 3128, "user": None,
                                                     "password": None},
                                           "proxy2": {"scheme": "http", "host": "squid.corp.example", "port": None,
                                                      "user": None, "password": None},
                                           "reply": name, "after": "eof", "seg": seg, "fault": None,
                                           "during": {"op": op, "n": k, "do": do}}
        def environment():
            # every explicit mapping x every kind of proxy-related variable in the process environment x every target
            for mapping in ("http", "https", "both", "empty", "other_scheme_only"):
                for noise in range(1, N_ENV_NOISE):
                    for host in TARGET_HOSTS:
                        for secure in (False, True):
                            yield {"secure": secure, "host": host, "port": None, "mapping": mapping, "env_noise": noise,
                                   "proxy": {"scheme": "http", "host": "proxy.test", "port": 3128, "user": None, "password": None},
                                   "proxy2": {"scheme": "http", "host": "squid.corp.example", "port": None, "user": None,
                                              "password": None},
                                   "reply": "200_established", "after": "eof", "seg": "whole", "fault": None}
        def credentials():
            for user in CRED_USERS:
                for password in [None] + CRED_PASSWORDS:
                    for port in (None, 3128):
                        for secure in (False, True):
                            spec = {"scheme": "http", "host": "proxy.test", "port": port, "user": user, "password": password}
                            yield {"secure": secure, "host": "example.test", "port": None, "mapping": "both",
                                   "proxy": spec, "proxy2": spec, "reply": "200_established", "after": "eof", "seg": "whole",
                                   "fault": None}
        return [Enumeration("every_cut_of_the_proxy_reply", every_cut, exhaustive=True),
                Enumeration("proxy_url_credentials", credentials, exhaustive=True),
                Enumeration("explicit_mapping_x_proxy_variables_in_the_environment", environment, exhaustive=True),
                Enumeration("every_reply_class", every_reply, exhaustive=True),
                Enumeration("sends_from_another_thread_while_connecting", sends_while_connecting, exhaustive=True),
                Enumeration("answer_at_the_size_limit_x_cut_in_terminator", limit_and_terminator, exhaustive=True),
                Enumeration("after_an_earlier_attempt_through_the_proxy", after_earlier_attempt, exhaustive=True)]

    def run_case(self, case):
        secure = case["secure"]
        scheme = "wss" if secure else "ws"
        url = "%s://%s%s/chat" % (scheme, case["host"], (":%d" % case["port"]) if case["port"] is not None else "")
        tport = case["port"] if case["port"] is not None else (443 if secure else 80)
        purl_http, purl_https = proxy_url(case["proxy"]), proxy_url(case["proxy2"])
        mapping = case["mapping"]
        env = {}
        if mapping == "http":
            proxies = {"http": purl_http}
        elif mapping == "https":
            proxies = {"https": purl_https}
        elif mapping == "both":
            proxies = {"http": purl_http, "https": purl_https}
        elif mapping == "empty":
            proxies = {}
            # an explicit empty mapping must win over the environment
            env = {"HTTP_PROXY": purl_http, "HTTPS_PROXY": purl_https}
        elif mapping == "other_scheme_only":
            proxies = {"https": purl_https} if not secure else {"http": purl_http}
        elif mapping == "env_set":
            proxies = "env"
            env = {"HTTP_PROXY": purl_http, "HTTPS_PROXY": purl_https}
        else:
            proxies = "env"
        if proxies == "env":
            chosen = env.get("HTTPS_PROXY" if secure else "HTTP_PROXY")
            chosen_spec = (case["proxy2"] if secure else case["proxy"]) if chosen else None
        else:
            chosen = proxies.get("https" if secure else "http")
            chosen_spec = (case["proxy2"] if secure else case["proxy"]) if chosen else None
        reply_bytes, is200 = REPLY_BY_NAME[case["reply"]]
        labels = {"mapping:" + mapping, "target:" + scheme, "reply:" + case["reply"]}
        fault = case["fault"] if chosen else None
        script = [["wait_request"]]
        if chosen:
            seg = case["seg"]
            if reply_bytes:
                script.append(["stream", [["bytes", reply_bytes]], seg, 0.0])
            if not is200:
                if case["after"] == "eof":
                    script.append(["eof", 0.0])
            else:
                script += [["wait_requests", 2], ["stream", [["reply", None], ["bytes", B(wire.TEXT, b"through the tunnel")]],
                                                  "whole", 0.0], ["eof", 1.0]]
        else:
            script += [["stream", [["reply", None], ["bytes", B(wire.TEXT, b"direct")]], "whole", 0.0], ["eof", 1.0]]
        att = {"script": script}
        if fault:
            kind, n, how = fault
            labels.add("fault:" + kind)
            if kind == "resolve":
                att["resolve"] = "gaierror" if how != "exc" else "exc"
            elif kind == "connect":
                att["addrs"] = [{"connect": "refused" if how == "reset" else ("timeout" if how == "timeout" else "exc")}]
            else:
                att["faults"] = {kind: {str(n): how}}
        scn = {"url": url, "attempts": [att], "ws_opts": {"proxies": proxies}, "env": env, "horizon": 1000.0}
        if proxies != "env" and case.get("env_noise"):
            scn["process_env"] = dict(env, **env_noise(case["env_noise"], case["host"]))
            labels.add("process_env_noise:%d" % case["env_noise"])
        during = case.get("during")
        if during:
            scn["io_reactions"] = [{"at": [during["op"], during["n"]], "do": [during["do"]]}]
            labels.add("send_from_another_thread_during:" + during["op"])
        earlier = case.get("earlier")
        if earlier:
            eb = REPLY_BY_NAME[earlier["reply"]][0]
            if earlier.get("cut") is not None:
                eb = eb[:earlier["cut"] % (len(eb) + 1)]
            # whatever the earlier attempt came to (it has its own simulated network), it is over
            pre = [["wait_request"]] + ([["stream", [["bytes", eb]], "whole", 0.0]] if eb else []) + [[earlier["end"], 0.0]]
            scn["prelude"] = {"attempts": [{"script": pre}], "same_object": earlier["same"]}
            labels.add("after_earlier_attempt:" + ("same_object" if earlier["same"] else "other_object"))
        tr = simnet.run_scenario(scn)
        names = tr.names()
        sim = tr.sim
        nreads = sum(1 for e in sim.log if e[0] == "recv")
        nontrivial = bool(chosen) and (not is200 or fault is not None or
                                       len(simnet.segment(reply_bytes, case["seg"])) >= 2)
        if tr.hang or tr.horizon:
            return failed("hang", tr.hang or "horizon", labels, nontrivial)
        if tr.escaped:
            return failed("escaped_exception", tr.escaped, labels, nontrivial)
        sends = [e for e in sim.log if e[0] in ("send", "send_fail") and e[2]]   # zero-length writes carry nothing
        all_written = b"".join(e[2] for e in sends)
        # ---- direct connection expected
        if not chosen:
            if sim.getaddrinfo_calls[:1] != [(case["host"].strip("[]"), tport)]:
                return failed("wrong_peer", "no proxy applies (%s) but the client resolved %s, expected %s" % (
                    mapping, sim.getaddrinfo_calls, (case["host"].strip("[]"), tport)), labels, nontrivial)
            if b"CONNECT " in all_written:
                return failed("unexpected_proxy_use", "CONNECT written although no proxy applies (%s, %s)" % (mapping, scheme),
                              labels, nontrivial)
            conn = [e for e in tr.events if e["name"] == "connected"]
            if not conn or conn[0].get("proxy") is not None:
                return failed("connected_proxy_field", "direct connection: events %s proxy=%r" % (
                    names, conn[0].get("proxy") if conn else None), labels, nontrivial)
            return held(labels, nontrivial)
        # ---- via proxy
        pport = chosen_spec["port"] if chosen_spec["port"] is not None else (443 if chosen_spec["scheme"] == "https" else 80)
        if sim.getaddrinfo_calls[:1] != [(chosen_spec["host"], pport)]:
            return failed("wrong_peer", "proxy %s configured but the client resolved %s (expected %s)" % (
                chosen, sim.getaddrinfo_calls, (chosen_spec["host"], pport)), labels, nontrivial)
        if len(sim.getaddrinfo_calls) != 1:
            return failed("wrong_peer", "more than one host resolved: %s" % sim.getaddrinfo_calls, labels, nontrivial)
        faulted_early = fault is not None and fault[0] in ("resolve", "connect")
        if sends:
            first = sends[0][2]
            block, rest = wire.split_http(first)
            if block is None or rest:
                return failed("bad_connect_request", "first write is not exactly one header block: %r" % first[:100],
                              labels, nontrivial)
            try:
                req = httpref.parse_request(block)
            except httpref.HttpError as error:
                return failed("bad_connect_request", "CONNECT request malformed: %s | %r" % (error, block[:160]),
                              labels, nontrivial)
            want_target = ("%s:%d" % (case["host"], tport)).encode()
            # "naming exactly the target": one Host line, for this target, and no header twice (what an EARLIER
            # connection in this process asked for has no business in this request)
            hosts = req.get_all(b"host")
            names_seen = [k.lower() for k, _ in req.headers]
            if len(hosts) != 1 or hosts[0] not in (case["host"].encode(), want_target) or \
                    len(set(names_seen)) != len(names_seen):
                return failed("bad_connect_request", "CONNECT for %r carries Host %r and header names %r" % (
                    want_target, hosts, names_seen), labels, nontrivial)
            if req.method != b"CONNECT" or req.target != want_target:
                return failed("bad_connect_request", "first request is %r %r, expected CONNECT %r" % (
                    req.method, req.target, want_target), labels, nontrivial)
        elif not faulted_early:
            return failed("bad_connect_request", "nothing was written to the proxy; events %s" % names, labels, nontrivial)
        send_failed = fault is not None and fault[0] == "send" and fault[1] == 0
        # a failing recv counts against the tunnel iff it struck before the whole reply had been handed over (how many
        # recv calls a reply takes depends on the client's read size, which is not the property's business)
        recv_faulted = False
        if fault is not None and fault[0] == "recv":
            delivered = 0
            for e in sim.log:
                if e[0] == "recv":
                    delivered += len(e[2])
                elif e[0] == "recv_fail":
                    recv_faulted = delivered < max(1, len(reply_bytes))
                    break
        tunnel_up = is200 and not faulted_early and not send_failed and not recv_faulted
        if fault is not None and fault[0] == "send" and fault[1] >= 1:
            tunnel_up = is200    # the fault hits the WebSocket request, after the tunnel is up
        if fault is not None and fault[0] == "recv" and not recv_faulted:
            tunnel_up = is200
        # nothing but the CONNECT before the complete reply has been read
        got = 0
        seen_second_write = False
        for e in sim.log:
            if e[0] == "recv":
                got += len(e[2])
            elif e[0] in ("send", "send_fail") and e[2] and e is not sends[0]:
                seen_second_write = True
                if not (is200 and got >= len(reply_bytes)):
                    return failed("wrote_before_tunnel", "a second write (%r...) happened after only %d of %d reply bytes "
                                  "(reply %s)" % (e[2][:24], got, len(reply_bytes), case["reply"]), labels, nontrivial)
        if not tunnel_up:
            if names[-1] != "connect_fail" or "connected" in names:
                return failed("tunnel_failure_not_reported", "proxy reply %s / fault %s: events %s" % (
                    case["reply"], fault, names), labels, nontrivial)
            if b"GET " in all_written or seen_second_write:
                return failed("handshake_leaked", "tunnel not established (%s) but the client wrote %r" % (
                    case["reply"], all_written[len(sends[0][2]) if sends else 0:][:60]), labels, nontrivial)
            if not all(s.released for s in sim.socks):
                labels.add("proxy_socket_left_open_on_failure(not demanded)")
            return held(labels, nontrivial)
        # tunnel up: GET on the same socket, TLS-wrapped for wss, Connected.proxy set
        later_fault = fault is not None and fault[0] in ("send", "recv")
        if len(sends) < 2 or not sends[1][2].startswith(b"GET /chat HTTP/1.1\r\n"):
            return failed("no_handshake_after_200", "proxy said 200 but the next write is %r; events %s" % (
                sends[1][2][:40] if len(sends) > 1 else None, names), labels, nontrivial)
        if sends[1][1] != sends[0][1]:
            return failed("handshake_on_other_socket", "GET written on socket %d, CONNECT on %d" % (sends[1][1], sends[0][1]),
                          labels, nontrivial)
        wraps = [e for e in sim.log if e[0] == "tls_wrap"]
        want_wraps = (1 if chosen_spec["scheme"] == "https" else 0) + (1 if secure else 0)
        if len(wraps) != want_wraps:
            return failed("tls_wrapping", "%d TLS wraps, expected %d (proxy %s, target %s)" % (
                len(wraps), want_wraps, chosen_spec["scheme"], scheme), labels, nontrivial)
        if secure:
            log_pos = {id(e): i for i, e in enumerate(sim.log)}
            if log_pos[id(wraps[-1])] > log_pos[id(sends[1])] or wraps[-1][2] != case["host"].strip("[]"):
                return failed("tls_wrapping", "target TLS must start after the tunnel is up and before the GET, for host %r: %r" % (
                    case["host"], wraps[-1]), labels, nontrivial)
        if later_fault and "connected" not in names:
            return held(labels, nontrivial)    # the fault hit the WebSocket request itself
        conn = [e for e in tr.events if e["name"] == "connected"]
        if not conn or conn[0].get("proxy") != chosen:
            return failed("connected_proxy_field", "Connected.proxy=%r, configured %r; events %s" % (
                conn[0].get("proxy") if conn else None, chosen, names), labels, nontrivial)
        if not later_fault and "text" not in names:
            return failed("tunnel_unusable", "no message through the tunnel: events %s" % names, labels, nontrivial)
        return held(labels, nontrivial)


PROP = C19()
