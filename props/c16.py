"""C16 - persist() reconnects forever with bounded, growing, resettable back-off."""
import math
import struct

from hypothesis import strategies as st

from harness import build, gen, simnet, wire, httpref
from harness.runner import Prop, Enumeration, held, failed, inconclusive
from props.c07 import monitor

B = wire.build_frame
OUTCOMES = ["connect_fail", "rejected", "drop_before_ready", "drop_after_ready", "graceful_close",
            "protocol_error", "unresponsive", "ready_then_messages",
            # attempts in which the server SAYS something about coming back (the delay is persist()'s own business:
            # [min_wait, max_wait] whatever the server says)
            "rejected_retry_after_120", "rejected_retry_after_1", "rejected_redirect", "closed_try_again_later",
            # the server closes and then keeps the TCP connection open for ever: only the client's close timeout ends this
            "server_close_then_lingers",
            # the peer is gone by the time the client writes anything after its upgrade request (a write of the
            # application - wherever it comes - or of the library fails for good / times out); otherwise as drop_after_ready
            "later_writes_fail", "later_write_times_out"]
REACHES_READY = {"later_writes_fail", "later_write_times_out","drop_after_ready", "graceful_close", "protocol_error", "unresponsive", "ready_then_messages",
                 "closed_try_again_later", "server_close_then_lingers"}
REJECTIONS = {
    "rejected": (403, "No", []),
    "rejected_retry_after_120": (503, "Busy", [["Retry-After", "120"], ["Content-Length", "0"]]),
    "rejected_retry_after_1": (429, "Too Many Requests", [["retry-after", "1"], ["X-RateLimit-Reset", "1"]]),
    "rejected_redirect": (301, "Moved", [["Location", "ws://elsewhere.test/"], ["Retry-After", "Fri, 31 Dec 1999 23:59:59 GMT"],
                                         ["Refresh", "30"], ["Keep-Alive", "timeout=300, max=7"]]),
}


class FakeExit(object):
    """Stands in for the threading.Event: records every wait, never sleeps."""

    def __init__(self, exit_at, sim=None):
        self.waits = []
        self.exit_at = exit_at
        self.sim = sim

    def wait(self, timeout=None):
        self.waits.append(timeout)
        if self.sim is not None and timeout:
            self.sim.now += timeout
        return self.exit_at is not None and len(self.waits) - 1 == self.exit_at

    def is_set(self):
        return False

    def set(self):
        pass


class FakeWebSocket(object):
    """Duck-typed websocket: connect() replays scripted event objects."""

    def __init__(self, attempts):
        self.attempts = attempts
        self.calls = []

    def connect(self, *args, **kwargs):
        self.calls.append((args, kwargs))
        i = len(self.calls) - 1
        return iter(self.attempts[i] if i < len(self.attempts) else self.attempts[-1])


def fake_events(outcome):
    from lomond import events
    url = "ws://x/"
    if outcome == "connect_fail":
        return [events.Connecting(url), events.ConnectFail("nope")]
    if outcome in REJECTIONS:
        status, reason, headers = REJECTIONS[outcome]
        response = None
        if headers:
            from lomond.response import Response
            response = Response(("HTTP/1.1 %d %s\r\n" % (status, reason) +
                                 "".join("%s: %s\r\n" % (n, v) for n, v in headers)).encode("ascii"))
        return [events.Connecting(url), events.Connected(url), events.Rejected(response, str(status)),
                events.Disconnected("x", True)]
    if outcome == "closed_try_again_later":
        return [events.Connecting(url), events.Connected(url), events.Ready(None, None, set()), events.Poll(),
                events.Closing(1013, "try again in 120 s"), events.Disconnected(graceful=True)]
    if outcome == "server_close_then_lingers":
        return [events.Connecting(url), events.Connected(url), events.Ready(None, None, set()), events.Poll(),
                events.Closing(1001, "bye"), events.Poll(), events.Disconnected("disconnected; no reply to close", False)]
    if outcome == "drop_before_ready":
        return [events.Connecting(url), events.Connected(url), events.Disconnected("lost")]
    head = [events.Connecting(url), events.Connected(url), events.Ready(None, None, set()), events.Poll()]
    if outcome in ("drop_after_ready", "later_writes_fail", "later_write_times_out"):
        return head + [events.Disconnected("lost")]
    if outcome == "graceful_close":
        return head + [events.Closing(1000, ""), events.Disconnected(graceful=True)]
    if outcome == "protocol_error":
        return head + [events.ProtocolError("bad", True), events.Disconnected("x")]
    if outcome == "unresponsive":
        return head + [events.Unresponsive(), events.Disconnected("x")]
    return head + [events.Text("a"), events.Binary(b"b"), events.Ping(b""), events.Disconnected("lost")]


def attempt_script(outcome):
    """One simnet attempt per outcome (real WebSocket driver)."""
    if outcome == "connect_fail":
        return {"addrs": [{"connect": "refused"}], "script": []}
    if outcome in REJECTIONS:
        status, reason, headers = REJECTIONS[outcome]
        return {"script": [["wait_request"], ["stream", [["reply", {"status": status, "reason": reason, "headers": headers}]],
                                              "whole", 0.0], ["eof", 0.0]]}
    if outcome == "server_close_then_lingers":
        return {"script": [["wait_request"], ["stream", [["reply", None], ["bytes", B(wire.CLOSE, struct.pack("!H", 1001) + b"bye")]],
                                              "whole", 0.0]]}       # ... and no EOF, ever
    if outcome == "closed_try_again_later":
        return {"script": [["wait_request"], ["stream", [["reply", None], ["bytes", B(wire.CLOSE, struct.pack("!H", 1013) +
                                                                                      b"try again in 120 s")]],
                                              "whole", 0.0], ["eof", 0.5]]}
    if outcome == "drop_before_ready":
        return {"script": [["wait_request"], ["stream", [["bytes", b"HTTP/1.1 101 Swi"]], "whole", 0.0], ["reset", 0.0]]}
    if outcome == "drop_after_ready":
        return {"script": [["wait_request"], ["stream", [["reply", None]], "whole", 0.0], ["eof", 0.5]]}
    if outcome in ("later_writes_fail", "later_write_times_out"):
        return {"script": [["wait_request"], ["stream", [["reply", None]], "whole", 0.0], ["eof", 0.5]],
                "faults": {"send": {"1": "pipe" if outcome == "later_writes_fail" else "timeout"}}}
    if outcome == "graceful_close":
        return {"script": [["wait_request"], ["stream", [["reply", None], ["bytes", B(wire.CLOSE, struct.pack("!H", 1001))]],
                                              "whole", 0.0], ["eof", 0.5]]}
    if outcome == "protocol_error":
        return {"script": [["wait_request"], ["stream", [["reply", None], ["bytes", B(wire.TEXT, b"\xff")]], "whole", 0.0],
                           ["eof", 0.5]]}
    if outcome == "unresponsive":
        return {"script": [["wait_request"], ["stream", [["reply", None]], "whole", 0.0], ["eof", 1000.0]]}
    return {"script": [["wait_request"],
                       ["stream", [["reply", None], ["bytes", B(wire.TEXT, b"a") + B(wire.BINARY, b"b") + B(wire.PING, b"")]],
                        "whole", 0.0], ["eof", 0.5]]}


APP_ACTIONS = ["close@connecting", "close@connected", "close@ready", "close@poll", "send@connecting", "send@connected",
               "send@ready", "close@text"]


def expected_delay(min_wait, max_wait, k, u):
    return min_wait + u * min(max_wait - min_wait, 2 ** k)


class C16(Prop):
    id = "C16"
    level = "exploration"
    rule = ("min_wait <= max_wait (ints and floats incl. equal, 0, large), poll / ping settings, a sequence of 1-40 connection "
            "outcomes (connect failure, rejection, drop before/after Ready, graceful close, protocol error, unresponsive), uniform "
            "draws in [0,1) incl. 0 and 1-2^-53 served through lomond.persist.random, and the back-off index at which the exit event "
            "fires (or never). Two drivers: a duck-typed websocket replaying scripted event objects, and the real WebSocket over "
            "the simulated transport with one script per attempt, whose consumer may call close() / send_text() at the first "
            "Connecting / Connected / Ready / Poll / Text event of an attempt. Oracle: output = each attempt's events (same objects, same order) "
            "+ exactly one BackOff; connect() received exactly the poll/ping_rate/ping_timeout given; delay == min_wait + u * "
            "min(max_wait - min_wait, 2^k) with k = consecutive attempts without Ready; exit_event.wait called once per BackOff with "
            "that delay; the generator ends exactly when wait returned True. Non-trivial = >= 3 attempts with a Ready followed by a "
            "failure.")
    assumptions = ("the exit event and the uniform source are harness objects (no real sleeping)",)
    examples = {"quick": 4000, "thorough": 300000}

    def strategy(self, tier):
        num = st.one_of(st.integers(0, 64), st.sampled_from([0, 1, 5, 30, 1000, 10 ** 6]),
                        st.integers(0, 640).map(lambda n: n / 8.0))

        @st.composite
        def case(draw):
            a, b = draw(num), draw(num)
            lo, hi = min(a, b), max(a, b)
            if draw(st.integers(0, 9)) == 0:
                hi = lo
            outcomes = draw(st.lists(st.sampled_from(OUTCOMES), min_size=1, max_size=40))
            n = len(outcomes)
            us = draw(st.lists(st.one_of(st.sampled_from([0.0, 0.5, 1 - 2 ** -53, 2 ** -53, 0.999]),
                                         st.integers(0, 1023).map(lambda k: k / 1024.0)), min_size=n, max_size=n))
            real = draw(st.integers(0, 3)) == 0
            if real:
                outcomes = outcomes[:8]
                us = us[:8]
            # what the consumer does while an attempt is running (real driver): close() or a send at the first
            # event of a given kind - legitimate at any time, and "for whatever reason" an attempt then ends
            actions = None
            if real:
                actions = draw(st.lists(st.sampled_from([None, None, None] + APP_ACTIONS), min_size=len(outcomes),
                                        max_size=len(outcomes)))
            return {"min_wait": lo, "max_wait": hi, "outcomes": outcomes, "us": us, "actions": actions,
                    "exit_at": draw(st.one_of(st.none(), st.integers(0, len(outcomes) - 1))),
                    "poll": draw(st.sampled_from([5, 1.0, 0.5])), "ping_rate": draw(st.sampled_from([30, 0, 2.0])),
                    "ping_timeout": draw(st.sampled_from([None, 3.0])), "driver": "real" if real else "fake",
                    "default_event": draw(st.integers(0, 7)) == 0}
        return case()

    def enumerations(self, tier):
        def seqs():
            import itertools
            for seq in itertools.product(["connect_fail", "drop_after_ready", "rejected"], repeat=5):
                for (lo, hi) in ((5, 30), (0, 0), (0, 3), (2.5, 2.5), (1, 1000)):
                    yield {"min_wait": lo, "max_wait": hi, "outcomes": list(seq), "us": [1 - 2 ** -53] * 5, "exit_at": None,
                           "poll": 5, "ping_rate": 30, "ping_timeout": None, "driver": "fake", "default_event": False}
        def server_hints():
            import itertools
            for seq in itertools.product(["rejected_retry_after_120", "rejected_retry_after_1", "rejected_redirect",
                                          "closed_try_again_later", "connect_fail", "server_close_then_lingers"], repeat=4):
                for (lo, hi) in ((5, 30), (0, 3), (1, 5)):
                    for driver in ("fake", "real"):
                        yield {"min_wait": lo, "max_wait": hi, "outcomes": list(seq), "us": [0.75, 0.999, 0.0, 0.5],
                               "actions": None, "exit_at": None, "poll": 1.0, "ping_rate": 0, "ping_timeout": None,
                               "driver": driver, "default_event": False}

        def with_actions():
            # the consumer closes / sends at every kind of event of an attempt, for every outcome that follows
            for act in APP_ACTIONS:
                for o in OUTCOMES:
                    yield {"min_wait": 1, "max_wait": 9, "outcomes": [o, o, "connect_fail"], "us": [0.999] * 3,
                           "actions": [act, None, act], "exit_at": None, "poll": 1.0, "ping_rate": 0, "ping_timeout": None,
                           "driver": "real", "default_event": False}

        def outages():
            # "persist() never ends by itself": thousands of consecutive failed attempts (a long
            # outage), also with a Ready somewhere in the middle
            for n in (1100, 2500):
                for (lo, hi) in ((5, 30), (0, 0.5), (1, 10 ** 6)):
                    for ready_at in (None, n // 2):
                        seq = ["connect_fail"] * n
                        if ready_at is not None:
                            seq[ready_at] = "drop_after_ready"
                        yield {"min_wait": lo, "max_wait": hi, "outcomes": seq, "us": [0.75] * n, "exit_at": None,
                               "poll": 5, "ping_rate": 30, "ping_timeout": None, "driver": "fake", "default_event": False}
        return [Enumeration("all_outcome_sequences_len5_x3", seqs, exhaustive=True),
                Enumeration("long_outages", outages, exhaustive=True),
                Enumeration("attempts_in_which_the_server_says_when_to_come_back", server_hints, exhaustive=True),
                Enumeration("application_calls_during_attempts", with_actions, exhaustive=True)]

    def run_case(self, case):
        from lomond.persist import persist
        import lomond.persist
        outcomes = case["outcomes"]
        n = len(outcomes)
        lo, hi = case["min_wait"], case["max_wait"]
        labels = {"driver:" + case["driver"]}
        nontrivial = n >= 3 and any(outcomes[i] in REACHES_READY and outcomes[i + 1] not in REACHES_READY
                                    for i in range(n - 1))
        kwargs = {"poll": case["poll"], "min_wait": lo, "max_wait": hi, "ping_rate": case["ping_rate"],
                  "ping_timeout": case["ping_timeout"]}
        scn = {"url": build.URL, "attempts": [attempt_script(o) for o in outcomes], "randoms": case["us"]}
        simnet.install()
        sim = simnet.Sim(scn)
        simnet.CURRENT = sim
        try:
            exit_event = FakeExit(case["exit_at"], sim)
            if case["driver"] == "fake":
                per_attempt = [fake_events(o) for o in outcomes]
                ws = FakeWebSocket(per_attempt)
                calls = ws.calls
            else:
                ws = simnet.make_ws(scn)
                calls = []
                real_connect = ws.connect

                def spy(*a, **k):
                    calls.append((a, k))
                    return real_connect(*a, **k)
                ws.connect = spy
                if case["ping_timeout"] is None and "unresponsive" in outcomes:
                    kwargs["ping_timeout"] = 3.0
            use_default = case["default_event"] and case["exit_at"] is None
            real_threading = lomond.persist.threading
            if use_default:
                class _T(object):
                    @staticmethod
                    def Event():
                        return exit_event
                lomond.persist.threading = _T
                labels.add("internal_exit_event")
            try:
                gen_ = persist(ws, exit_event=None if use_default else exit_event, **kwargs)
                out = []
                ended = False
                backoffs = 0
                done_actions = set()
                limit = n if case["exit_at"] is None else case["exit_at"] + 1
                escaped = None
                while True:
                    try:
                        ev = next(gen_)
                    except StopIteration:
                        ended = True
                        break
                    except simnet.HarnessSignal as sig:
                        escaped = "hang: %s" % sig
                        break
                    except Exception as error:
                        escaped = "%s: %s" % (type(error).__name__, error)
                        break
                    out.append(ev)
                    act = (case.get("actions") or [None] * (backoffs + 1))[backoffs] if backoffs < n and \
                        case["driver"] == "real" else None
                    if act and act.split("@")[1] == ev.name and (backoffs, act) not in done_actions:
                        done_actions.add((backoffs, act))
                        labels.add("app:" + act)
                        try:
                            if act.startswith("close"):
                                ws.close()
                            else:
                                ws.send_text("from the application")
                        except simnet.HarnessSignal:
                            raise
                        except Exception as error:      # the application catches what its own calls raise
                            if "WebSocketError" not in [c.__name__ for c in type(error).__mro__]:
                                escaped = "application call %s raised %s: %s" % (act, type(error).__name__, error)
                                break
                    if len(calls) > limit + 3:
                        escaped = ("%d connection attempts were made although only %d back-offs were yielded: an attempt "
                                   "ended without a BackOff (and without consulting the exit event)" % (len(calls), backoffs))
                        break
                    if ev.name == "back_off":
                        backoffs += 1
                        if backoffs >= limit and case["exit_at"] is None:
                            break      # horizon: still producing, as it must
                        if backoffs > limit:
                            break
                if not ended:
                    gen_.close()
            finally:
                lomond.persist.threading = real_threading
        finally:
            simnet.CURRENT = None
        if escaped:
            sig = "attempt_without_backoff" if "without a BackOff" in escaped else "escaped_exception"
            return failed(sig, escaped, labels, nontrivial)
        # ---- split into attempts
        attempts, cur, delays = [], [], []
        for ev in out:
            if ev.name == "back_off":
                attempts.append(cur)
                cur = []
                delays.append(ev.delay)
            else:
                cur.append(ev)
        if cur:
            return failed("events_after_last_backoff", "events %s follow the last BackOff" % [e.name for e in cur],
                          labels, nontrivial)
        want_n = limit
        if len(attempts) != want_n:
            return failed("wrong_number_of_attempts", "%d attempts/back-offs, expected %d (exit_at=%r, ended=%s)" % (
                len(attempts), want_n, case["exit_at"], ended), labels, nontrivial)
        if case["exit_at"] is None and ended:
            return failed("persist_ended_by_itself", "generator ended after %d attempts although the exit event never fired" %
                          len(attempts), labels, nontrivial)
        if case["exit_at"] is not None and not ended:
            return failed("persist_ignored_exit", "exit event fired at back-off %d but persist() kept going" % case["exit_at"],
                          labels, nontrivial)
        # ---- per attempt
        k = 0
        # the exact formula can only be checked when the delays were drawn from the substituted random source
        controlled = len(sim.randoms_issued) >= len(attempts)
        for i, evs in enumerate(attempts):
            names = [e.name for e in evs]
            if case["driver"] == "fake":
                want = per_attempt[i]
                if len(evs) != len(want) or any(a is not b for a, b in zip(evs, want)):
                    return failed("events_not_passed_through", "attempt %d: got %s, the connection yielded %s" % (
                        i, names, [e.name for e in want]), labels, nontrivial)
            else:
                reached = "ready" in names
                if reached != (outcomes[i] in REACHES_READY) and not (case.get("actions") or [None] * n)[i]:
                    # the connection itself went another way than scripted (not persist()'s business)
                    return inconclusive("attempt_took_another_course", labels)
                if not names or names[0] != "connecting" or names[-1] not in ("connect_fail", "disconnected") or \
                        sum(1 for x in names if x in ("connect_fail", "disconnected")) != 1:
                    return failed("events_not_passed_through", "attempt %d (%s) is not one whole connection: %s" % (
                        i, outcomes[i], names), labels, nontrivial)
            k = 0 if "ready" in names else k + 1
            u = case["us"][i]
            want_delay = expected_delay(lo, hi, k, u)
            d = delays[i]
            if not (lo <= d <= hi):
                return failed("delay_out_of_bounds", "BackOff %d delay %r outside [%r, %r]" % (i, d, lo, hi), labels, nontrivial)
            if controlled and not math.isclose(d, want_delay, rel_tol=1e-12, abs_tol=1e-12):
                return failed("delay_formula", "BackOff %d after outcomes %s: delay %r, expected min_wait + u*min(max-min, 2^%d) = "
                              "%r (u=%r)" % (i, outcomes[max(0, i - 3):i + 1], d, k, want_delay, u), labels, nontrivial)
            last_at_horizon = (not ended) and i == len(attempts) - 1   # we stopped pulling right after this BackOff
            if len(exit_event.waits) <= i:
                if not last_at_horizon:
                    return failed("wait_not_delay", "no exit_event.wait for BackOff %d" % i, labels, nontrivial)
            elif exit_event.waits[i] != d:
                return failed("wait_not_delay", "exit_event.wait #%d got %r, BackOff announced %r" % (
                    i, exit_event.waits[i], d), labels, nontrivial)
        want_waits = len(attempts) if ended else len(attempts) - 1
        if len(exit_event.waits) != want_waits:
            return failed("wait_count", "%d waits for %d back-offs (ended=%s)" % (
                len(exit_event.waits), len(attempts), ended), labels, nontrivial)
        if not controlled:
            labels.add("inconclusive:random_source_not_the_one_substituted(bounds checked, formula not)")
        # ---- connect() arguments
        if len(calls) < len(attempts):
            return failed("connect_calls", "%d connect() calls for %d attempts" % (len(calls), len(attempts)), labels, nontrivial)
        for a, kw in calls:
            got = dict(kw)
            want = {"poll": kwargs["poll"], "ping_rate": kwargs["ping_rate"], "ping_timeout": kwargs["ping_timeout"]}
            if a or got != want:
                return failed("connect_arguments", "connect() received args=%r kwargs=%r, expected %r" % (a, got, want),
                              labels, nontrivial)
        return held(labels, nontrivial)


PROP = C16()
