"""C08 - the closing handshake completes correctly in both directions."""
import struct

from hypothesis import strategies as st

from harness import deflateref, build, gen, simnet, wire, httpref
from harness.runner import Prop, Enumeration, held, failed, inconclusive
from props.c01 import effective_seg, compare_events

SEND_ACTIONS = [["send_text", "late-€"], ["send_binary", "0001ff"], ["ping", "6c"], ["pong", "6d"],
                ["send_json", {"k": [1, 2]}]]
DATA_OPS = (wire.TEXT, wire.BINARY, wire.CONT)


def client_frames(sim, with_failed_close=False):
    """[(log index, Frame)] of everything the client wrote after its HTTP request,
    or a problem string."""
    out = []
    pos_log = []
    buf = bytearray()
    seen_http = False
    for i, e in enumerate(sim.log):
        if e[0] != "send" and not (with_failed_close and e[0] == "send_fail" and e[2][:1] == b"\x88"):
            continue
        data = e[2]
        if not seen_http:
            j = data.find(b"\r\n\r\n")
            if data.startswith(b"GET ") and j >= 0:
                seen_http = True
                data = data[j + 4:]
                if not data:
                    continue
        pos_log.append((len(buf), i))
        buf += data
    frames, problems = wire.decode_client_frames(bytes(buf))
    if problems:
        return None, "; ".join(problems)
    for f in frames:
        li = max(i for off, i in pos_log if off <= f.start)
        out.append((li, f))
    return out, None


class C08(Prop):
    id = "C08"
    level = "exploration"
    rule = ("generated closing histories: application close(code, reason) at Connected / Ready / first Poll / the n-th message / "
            "Closing (optionally repeated), server Close (valid code+reason or empty payload) before, in reply, or never, data and "
            "control frames before and between the two Closes, application sends at any event (before, during Closing, after), EOF "
            "after a pause / at once / never; any read segmentation. Oracle = reference close state machine over events, the "
            "decoded wire log and the result of every application call. Non-trivial = both parties send a Close, or a send is "
            "attempted after a Close was written.")
    assumptions = ("single-threaded histories only (C12 covers races)",
                   "whatever follows the server's own Close frame on the wire is not generated")
    examples = {"quick": 4000, "thorough": 160000}

    def strategy(self, tier):
        msgs = st.lists(gen.message(big=False), max_size=4)
        trig_before = st.one_of(st.just(["event", "connected", 0]), st.just(["event", "ready", 0]),
                                st.just(["event", "poll", 0]), st.tuples(st.just("msg"), st.integers(0, 3)).map(list))
        close_args = st.one_of(st.none(), st.tuples(gen.close_code(), gen.close_reason()).map(list),
                               st.tuples(st.just(None), st.just("")).map(list))
        send_when = st.one_of(
            st.just(["event", "ready", 0]), st.just(["event", "closing", 0]), st.just(["event", "closed", 0]),
            st.just(["event", "disconnected", 0]), st.just(["every"]), st.tuples(st.just("msg"), st.integers(0, 7)).map(list),
            st.just(["event", "poll", None]))
        sends = st.lists(st.fixed_dictionaries({
            "when": send_when, "do": st.lists(st.sampled_from(SEND_ACTIONS), min_size=1, max_size=2)}), max_size=3)
        return st.fixed_dictionaries({
            "mode": st.sampled_from(["client_first", "client_first", "server_first", "server_first", "client_only", "crossing",
                                     "close_in_closing"]),
            "pre": msgs, "mid": msgs,
            "close_at": trig_before, "close_args": close_args,
            "server_close": gen.close_msg(),
            "sends": sends,
            "again": st.booleans(),
            "eof": st.sampled_from(["after_pause", "at_once", "never"]),
            "seg": gen.segmentation(),
            # None and 0 both DISABLE the close timeout (documented); 30 s is far beyond these histories
            "close_timeout": st.sampled_from([None, None, 0, 30.0]),
            # the write that carries the client's Close frame (its own or the echo) fails without breaking the transport
            "close_write_fault": st.sampled_from([None, None, None, "timeout", "oserror"]),
            # over TLS (the socket is then unwrapped / closed through the TLS layer) and with permessage-deflate negotiated
            # (the application's sends go through the compressor)
            "tls": gen.weighted([(3, st.just(False)), (1, st.just(True))]),
            "deflate": gen.deflate_opt(),
            # an earlier connection in the same process (same WebSocket object or another one) and how it ended
            "prelude": gen.prelude(),
            # constructor arguments that only shape the upgrade request
            "wsopts_noise": gen.wsopts_noise(),
            # a second live connection in the same process (interleaved with this one, or blocked in a send)
            "companion": gen.companion(),
            # calls with unsendable arguments that the application tries (and whose error it catches) on the way
            "noise_calls": gen.noise_calls(),
            # the application has switched on DEBUG logging for the library
            "debug_log": gen.debug_log(),
        })

    def enumerations(self, tier):
        def after_every_prelude():
            # a small battery of closing handshakes after EVERY way an earlier connection can have ended
            text = {"kind": "text", "payload": ["str", "m\u00e9"], "forms": [0]}
            battery = [
                {"mode": "server_first", "server_close": {"kind": "close", "code": 1000, "reason": "bye"}},
                {"mode": "server_first", "server_close": {"kind": "close", "code": 1001, "reason": "caf\u00e9 \u20ac"}},
                {"mode": "server_first", "server_close": {"kind": "close", "code": None}},
                {"mode": "client_first", "server_close": {"kind": "close", "code": 1000, "reason": "ok then"}},
                {"mode": "client_only", "server_close": {"kind": "close", "code": 1000, "reason": ""}},
                {"mode": "crossing", "server_close": {"kind": "close", "code": 1000, "reason": "crossed"}},
            ]
            for kind in build.PRELUDE_KINDS:
                for same in (True, False):
                    for end in build.PRELUDE_ENDS:
                        for b in battery:
                            yield dict({"pre": [text], "mid": [text], "close_at": ["msg", 0], "close_args": [1000, "done"],
                                        "sends": [], "again": False, "eof": "after_pause", "seg": "whole",
                                        "close_timeout": 30.0, "prelude": {"kind": kind, "same": same, "end": end}}, **b)
        text = {"kind": "text", "payload": ["str", "m\u00e9"], "forms": [0]}
        base = {"pre": [text], "mid": [text], "close_at": ["msg", 0], "close_args": [1000, "done"], "sends": [], "again": False,
                "eof": "after_pause", "seg": "whole", "close_timeout": 30.0}
        small = [dict(base, mode="server_first", server_close={"kind": "close", "code": 1000, "reason": "bye"}),
                 dict(base, mode="client_first", server_close={"kind": "close", "code": 1001, "reason": "ok then"}),
                 dict(base, mode="close_in_closing", server_close={"kind": "close", "code": None}),
                 dict(base, mode="crossing", server_close={"kind": "close", "code": 1000, "reason": "crossed"})]
        from harness.runner import with_noise, with_companion, with_debug_log

        def close_write_fails():
            send = {"when": ["every"], "do": [SEND_ACTIONS[0]]}
            for b in small + [dict(base, mode="client_only", server_close={"kind": "close", "code": 1000, "reason": ""})]:
                for how in ("timeout", "oserror"):
                    for ct in (None, 30.0):
                        for eof in ("after_pause", "at_once"):
                            for sends in ([], [send]):
                                yield dict(b, close_write_fault=how, close_timeout=ct, eof=eof, sends=sends)
        def transports():
            send = {"when": ["every"], "do": [SEND_ACTIONS[0]]}
            for b in small + [dict(base, mode="client_only", server_close={"kind": "close", "code": 1000, "reason": ""})]:
                for tls in (False, True):
                    for deflate in (False, True, {"sb": 9, "cb": 9, "snct": True, "cnct": True}):
                        if not tls and not deflate:
                            continue
                        for sends in ([], [send]):
                            for eof in ("after_pause", "at_once"):
                                yield dict(b, tls=tls, deflate=deflate, sends=sends, eof=eof)
        return [Enumeration("closing_handshakes_over_tls_and_with_deflate", transports, exhaustive=True),
                Enumeration("closing_handshakes_after_every_kind_of_earlier_connection", after_every_prelude,
                            exhaustive=True), with_noise(small), with_companion(small), with_debug_log(small),
                Enumeration("the_close_frame_cannot_be_written", close_write_fails, exhaustive=True)]

    def run_case(self, case):
        mode = case["mode"]
        # "crossing": the application closes first, but the server's Close is ALREADY on its way - it arrives in
        # the same read as the message at which the application calls close() (judged like client_first)
        crossing = mode == "crossing"
        if crossing:
            mode = "client_first"
        pre = build.build_session(case["pre"])
        mid = build.build_session(case["mid"]) if mode in ("client_first", "client_only") else build.build_session([])
        sc = case["server_close"]
        sc_built = build.build_session([sc])
        sc_expected = sc_built.expected[0]
        n_pre = len(pre.expected)
        # when is the application's close() placed
        close_at = case["close_at"]
        if close_at[0] == "msg" and close_at[1] >= n_pre:
            close_at = ["event", "ready", 0]
        args = case["close_args"]
        close_action = ["close"] if args is None else ["close", args[0], args[1]]
        reactions = []
        again = [["close", 1001, "again"]] if case["again"] else []
        if mode in ("client_first", "client_only"):
            reactions.append({"when": close_at, "do": [close_action] + again})
        elif mode == "close_in_closing":
            reactions.append({"when": ["event", "closing", 0], "do": [close_action] + again})
        if case["again"]:
            # further close() calls only at events that follow the first Close
            if mode == "server_first":
                reactions.append({"when": ["event", "disconnected", 0], "do": again})
            else:
                reactions.append({"when": ["event", "closed", 0], "do": again})
                reactions.append({"when": ["event", "disconnected", 0], "do": again})
        for r in case["sends"]:
            reactions.append(r)
        reply_len = len(httpref.build_reply(None, b""))
        seg = effective_seg(case["seg"], reply_len + len(pre.data) + len(mid.data) + 140)
        reply = httpref.canonical_spec(extensions=[deflateref.header_of(case["deflate"])]) if case.get("deflate") else None
        script = [["wait_request"], ["stream", [["reply", reply], ["bytes", bytes(pre.data)]], seg, 0.0]]
        eof = case["eof"]
        cwf = case.get("close_write_fault")
        if cwf and eof == "never":
            eof = "after_pause"
        if crossing:
            whole = bytes(pre.data) + bytes(mid.data) + bytes(sc_built.data)
            script = [["wait_request"], ["stream", [["reply", reply], ["bytes", whole]], case["seg"] if case["seg"] in (
                "whole", "bytewise") else "whole", 0.0]]
        elif mode == "client_first":
            # (a Close frame that could not be written never reaches the server: it then closes on its own account)
            script += [["pause", 1.0] if cwf else ["wait_close"],
                       ["stream", [["bytes", bytes(mid.data) + bytes(sc_built.data)]], seg, 0.5]]
        elif mode == "client_only":
            script += [["pause", 1.0] if cwf else ["wait_close"], ["stream", [["bytes", bytes(mid.data)]], seg, 0.5]]
            if eof == "never":
                eof = "after_pause"
        else:
            script += [["stream", [["bytes", bytes(sc_built.data)]], seg, 0.25]]
            if eof == "never":
                eof = "after_pause"
        if eof == "after_pause":
            script.append(["eof", 2.0])
        elif eof == "at_once":
            script.append(["eof", 0.0])
        scn = build.scenario(script, reactions=reactions, horizon=500.0,
                             connect_opts={"close_timeout": case.get("close_timeout"), "ping_rate": 0},
                             attempt_extra={"faults": {"send_close": cwf}} if cwf else None,
                             ws_opts={"compress": True} if case.get("deflate") else None,
                             **({"url": "wss://example.test/"} if case.get("tls") else {}))
        tr = simnet.run_scenario(scn)
        names = tr.names()
        labels = {"mode:" + ("crossing" if crossing else mode), "eof:" + eof, "close_timeout:%r" % (case.get("close_timeout"),)}
        if tr.hang or tr.horizon:
            return failed("hang", "%s; events %s" % (tr.hang or "did not end by itself (horizon reached)", names[-10:]),
                          labels, True)
        if tr.escaped:
            return failed("escaped_exception", tr.escaped, labels, True)

        frames, problem = client_frames(tr.sim)
        write_failed = bool(cwf) and any(e[0] == "send_fail" and e[2][:1] == b"\x88" for e in tr.sim.log)
        if write_failed:
            labels.add("close_write_failed:" + cwf)
        if problem:
            return failed("invalid_client_frame", problem, labels, True)
        closes = [(li, f) for li, f in frames if f.opcode == wire.CLOSE]     # Close frames that reached the wire
        close_li = closes[0][0] if closes else None
        # -- attempts after a Close was written
        attempted_after = False
        for rec in tr.actions:
            a = rec["action"]
            if a[0] == "close" or a[0] == "sleep":
                continue
            if close_li is not None and rec["log_before"] > close_li:
                attempted_after = True
                wrote = [e for e in tr.sim.log[rec["log_before"]:rec["log_after"]] if e[0] in ("send", "send_fail")]
                if rec["result"] == "ok" or "WebSocketError" not in rec.get("mro", []):
                    return failed("send_after_close_not_refused",
                                  "%s at event %d (%s) after the Close frame: result %s" % (
                                      a, rec["ev"], names[rec["ev"]], rec["result"]), labels, True)
                if wrote:
                    return failed("send_after_close_wrote", "%s after the Close frame wrote %d bytes" % (
                        a, sum(len(e[2]) for e in wrote)), labels, True)
        both = bool(closes) and mode in ("client_first", "server_first", "close_in_closing")
        nontrivial = both or attempted_after
        if attempted_after:
            labels.add("send_attempt_after_close")
        # -- always: at most one Close, no data frame after it
        if len(closes) > 1:
            return failed("two_close_frames", "%d Close frames written: %s" % (
                len(closes), [f.payload[:20].hex() for _, f in closes]), labels, nontrivial)
        if closes:
            after = [f for li, f in frames if li > close_li or (li == close_li and f.start > closes[0][1].start)]
            data_after = [f for f in after if f.opcode in DATA_OPS]
            if data_after:
                return failed("data_after_close", "frames after the Close: %s" % [repr(f) for f in after], labels, nontrivial)
            if any(f.opcode in (wire.PING, wire.PONG) for f in after):
                labels.add("control_frame_after_close(not demanded here)")

        msgs = [e for e in tr.events if e["name"] in ("text", "binary", "ping", "pong")]
        if write_failed and mode in ("client_first", "client_only"):
            # the application's own Close could not be written: the statement does not say what follows (trying again
            # later would be as defensible as giving up), so only the clauses checked so far apply - nothing hangs or
            # escapes, at most one Close reaches the wire, no data frame follows it
            labels.add("close_write_failed:own_close(not judged further)")
            return held(labels, nontrivial)
        if write_failed:
            # the echo of the server's Close could not be written: the attempt stands for the frame below (Closing was
            # yielded, the server drops the connection: graceful Disconnected, socket closed)
            all_frames, _ = client_frames(tr.sim, with_failed_close=True)
            closes = closes or [(li, f) for li, f in (all_frames or []) if f.opcode == wire.CLOSE][:1]
        if mode in ("client_first", "client_only"):
            exp_payload = self.close_payload(args)
            if "connected" not in names:
                return inconclusive("never_connected", labels)
            if len(closes) != 1:
                return failed("close_not_written", "close%s wrote %d Close frames; events %s" % (
                    tuple(args) if args else "()", len(closes), names), labels, nontrivial)
            if closes[0][1].payload != exp_payload:
                return failed("close_payload", "Close frame carries %s, expected %s" % (
                    closes[0][1].payload.hex(), exp_payload.hex()), labels, nontrivial)
            why = compare_events(msgs, [e for e in pre.expected + mid.expected if e["name"] != "closing"])
            if why:
                return failed("message_lost_while_closing", why + " | events %s" % names, labels, nontrivial)
            if mode == "client_first":
                want_tail = ["closed", "disconnected"]
                tail = [n for n in names if n in ("closed", "closing", "disconnected", "protocol_error")]
                if tail != want_tail:
                    return failed("close_reply_handling", "expected Closed then Disconnected, got %s; events %s" % (
                        tail, names), labels, nontrivial)
                closed = [e for e in tr.events if e["name"] == "closed"][0]
                if (closed.get("code"), closed.get("reason")) != (sc_expected["code"], sc_expected["reason"]):
                    return failed("closed_payload", "Closed(%r, %r), server sent (%r, %r)" % (
                        closed.get("code"), closed.get("reason"), sc_expected["code"], sc_expected["reason"]),
                                  labels, nontrivial)
                last = tr.events[-1]
                if last.get("graceful") is not True:
                    return failed("not_graceful", "Disconnected(%r) after a completed closing handshake" % (last,),
                                  labels, nontrivial)
                if names.index("closed") != len(names) - 2:
                    return failed("close_reply_handling", "events between Closed and Disconnected: %s" % names[-4:],
                                  labels, nontrivial)
                st0 = tr.sim.socks[-1]
                if not st0.closed:
                    return failed("socket_not_closed", "handshake complete but close() was never called on the socket "
                                  "(shutdown=%s)" % st0.shutdown_called, labels, nontrivial)
        else:
            why = compare_events(msgs, [e for e in pre.expected])
            if why:
                return failed("delivery_mismatch", why + " | events %s" % names, labels, nontrivial)
            closing = [e for e in tr.events if e["name"] == "closing"]
            if len(closing) != 1 or "closed" in names:
                return failed("closing_event", "expected exactly one Closing, events %s" % names, labels, nontrivial)
            if (closing[0].get("code"), closing[0].get("reason")) != (sc_expected["code"], sc_expected["reason"]):
                return failed("closing_payload", "Closing(%r, %r), server sent (%r, %r)" % (
                    closing[0].get("code"), closing[0].get("reason"), sc_expected["code"], sc_expected["reason"]),
                              labels, nontrivial)
            ci = names.index("closing")
            # sends during the Closing event must succeed and precede the echo
            for rec in tr.actions:
                if rec["ev"] == ci and rec["action"][0] not in ("close", "sleep"):
                    app_closed_before = any(r2["action"][0] == "close" and r2["ev"] == ci and
                                            r2["log_before"] < rec["log_before"] for r2 in tr.actions)
                    if rec["result"] != "ok" and not app_closed_before:
                        return failed("send_during_closing_refused", "%s during the Closing event: %s" % (
                            rec["action"], rec["result"]), labels, nontrivial)
                    labels.add("send_during_closing")
            if len(closes) != 1:
                return failed("no_echo", "server Close was answered with %d Close frames; events %s" % (
                    len(closes), names), labels, nontrivial)
            app_close = [r for r in tr.actions if r["action"][0] == "close" and r["ev"] <= ci]
            echo = closes[0][1].payload
            if not app_close:
                want_code = sc_expected["code"]
                got_code = struct.unpack("!H", echo[:2])[0] if len(echo) >= 2 else None
                if got_code != want_code:
                    return failed("echo_code", "echoed code %r, server sent %r" % (got_code, want_code), labels, nontrivial)
            else:
                labels.add("app_close_at_closing")
            last = tr.events[-1]
            if last["name"] != "disconnected" or last.get("graceful") is not True:
                return failed("not_graceful", "server closed, client echoed, server dropped: %r; events %s" % (last, names),
                              labels, nontrivial)
            if not tr.sim.socks[-1].released:
                return failed("socket_not_closed", "socket still open after Disconnected", labels, nontrivial)
        return held(labels, nontrivial)

    @staticmethod
    def close_payload(args):
        if args is None:
            return struct.pack("!H", 1000) + b"goodbye"
        code, reason = args
        if code is None:
            return b""
        return struct.pack("!H", code) + reason.encode("utf-8")


PROP = C08()
