"""C03 - every frame the client writes is a valid client frame that round-trips."""
import copy
import json
import struct

from hypothesis import strategies as st

from harness import build, gen, simnet, wire, deflateref, httpref
from harness.runner import Prop, Enumeration, held, failed, after_every_prelude
from props.c04 import deflate_reply

FIXED_KEYS = ["00000000", "ffffffff", "01020304", "a5a5a5a5"]


def make_arg(spec):
    kind = spec[0]
    if kind == "str":
        return spec[1]
    if kind in ("text", "ascii"):
        return build.expand_text(spec)
    if kind in ("hex", "rand", "rep", "zero", "echo"):
        return build.expand(spec)
    if kind == "bytearray":
        return bytearray(bytes.fromhex(spec[1]))
    if kind == "memoryview":
        return memoryview(bytes.fromhex(spec[1]))
    if kind == "int":
        return spec[1]
    if kind == "none":
        return None
    if kind == "list":
        return [1, 2, 3]
    if kind == "float":
        return 1.5
    if kind == "surrogate":
        # text with no UTF-8 form: ["surrogate"] or ["surrogate", code point, position]
        cp = spec[1] if len(spec) > 1 else 0xD800
        pos = spec[2] if len(spec) > 2 else 1
        base = "caf\u00e9.txt"
        if pos == 0:
            return chr(cp)                               # alone
        if pos == 1:
            return chr(cp) + base                        # first
        if pos == 2:
            return base[:3] + chr(cp) + base[3:] + chr(cp)   # in the middle and last
        # a surrogate PAIR in the wrong order is two unpaired surrogates
        return base + chr(0xDC00 + (cp & 0x3FF)) + chr(0xD800 + (cp & 0x3FF))
    raise ValueError(spec)


# unpaired surrogates: both halves, their boundaries, and the range PEP 383 ("surrogateescape") uses for raw bytes
SURROGATES = [0xD800, 0xD801, 0xDBFF, 0xDC00, 0xDC7F, 0xDC80, 0xDCE9, 0xDCFF, 0xDD00, 0xDFFF]


def is_text_arg(spec):
    return spec[0] in ("str", "text", "ascii")


def is_bytes_arg(spec):
    return spec[0] in ("hex", "rand", "rep", "zero", "echo")


def expected_of(call, negotiated):
    """Reference semantics of one call: ('frame', opcode, payload, rsv1) or
    ('reject', (exception classes...))."""
    m = call["m"]
    if m == "send_text":
        if call["arg"][0] == "surrogate":
            return ("reject", (TypeError, ValueError))      # UnicodeEncodeError is a ValueError
        if not is_text_arg(call["arg"]):
            return ("reject", (TypeError,))
        comp = call.get("compress", True)
        return ("frame", wire.TEXT, make_arg(call["arg"]).encode("utf-8"), 1 if (negotiated and comp) else 0)
    if m == "send_binary":
        if not is_bytes_arg(call["arg"]):
            return ("reject", (TypeError,))
        comp = call.get("compress", True)
        return ("frame", wire.BINARY, make_arg(call["arg"]), 1 if (negotiated and comp) else 0)
    if m in ("send_ping", "send_pong"):
        if not is_bytes_arg(call["arg"]):
            return ("reject", (TypeError,))
        data = make_arg(call["arg"])
        if len(data) > 125:
            return ("reject", (ValueError,))
        return ("frame", wire.PING if m == "send_ping" else wire.PONG, data, 0)
    if m == "send_json":
        if call.get("both"):
            return ("reject", (TypeError, ValueError))
        if call.get("unencodable"):
            return ("reject", (TypeError, ValueError))
        obj = call["obj"] if "obj" in call else call["kwargs"]
        return ("json", wire.TEXT, obj, 1 if negotiated else 0)
    if m == "close":
        code = call["code"]
        reason = call["reason"]
        if reason[0] == "wrong":
            # a reason that is neither text nor bytes cannot be sent (whatever the code, also None)
            return ("reject", (TypeError, ValueError, AttributeError))
        rb = bytes.fromhex(reason[1]) if reason[0] == "b" else reason[1].encode("utf-8")
        if code is None:
            return ("frame", wire.CLOSE, b"", 0)
        if len(rb) + 2 > 125:
            return ("reject", (TypeError, ValueError))
        return ("frame", wire.CLOSE, struct.pack("!H", code) + rb, 0)
    raise ValueError(m)


def perform(ws, call):
    m = call["m"]
    if m in ("send_text", "send_binary"):
        arg = make_arg(call["arg"])
        keep = copy.deepcopy(arg) if not isinstance(arg, memoryview) else bytes(arg)
        if "compress" in call and call.get("positional"):
            getattr(ws, m)(arg, call["compress"])
        elif "compress" in call:
            getattr(ws, m)(arg, compress=call["compress"])
        else:
            getattr(ws, m)(arg)
        return arg, keep
    if m in ("send_ping", "send_pong"):
        arg = make_arg(call["arg"])
        keep = copy.deepcopy(arg) if not isinstance(arg, memoryview) else bytes(arg)
        getattr(ws, m)(arg)
        return arg, keep
    if m == "send_json":
        if call.get("unencodable"):
            arg = {"k": {1, 2}} if call["unencodable"] == "set" else {"k": b"bytes"}
            keep = copy.deepcopy(arg)
            ws.send_json(arg)
            return arg, keep
        if call.get("both"):
            arg = copy.deepcopy(call["obj"])
            keep = copy.deepcopy(arg)
            ws.send_json(arg, **call["kwargs"])
            return arg, keep
        if "obj" in call:
            arg = copy.deepcopy(call["obj"])
            keep = copy.deepcopy(arg)
            ws.send_json(arg)
            return arg, keep
        kwargs = copy.deepcopy(call["kwargs"])
        keep = copy.deepcopy(kwargs)
        ws.send_json(**kwargs)
        return kwargs, keep
    if m == "close":
        reason = call["reason"]
        if reason[0] == "wrong":
            r = WRONG_REASONS[reason[1]]()
        else:
            r = bytes.fromhex(reason[1]) if reason[0] == "b" else reason[1]
        ws.close(call["code"], r)
        return r, copy.deepcopy(r)
    raise ValueError(m)


def same(a, b):
    if isinstance(a, memoryview):
        return bytes(a) == b
    return a == b and type(a) is type(b)


# reasons for close() that are neither text nor bytes (what bytes() / str() would make of some of them is beside the point)
WRONG_REASONS = {"int": lambda: 5, "zero": lambda: 0, "bool": lambda: True, "float": lambda: 1.5, "none": lambda: None,
                 "list": lambda: [65, 66], "tuple": lambda: (1, 2), "dict": lambda: {1: 2}, "set": lambda: {7}}
SEND_FAULTS = ["eintr", "partial_eintr", "eagain", "partial_eagain", "timeout", "oserror"]


class C03(Prop):
    id = "C03"
    level = "exploration"
    rule = ("a Ready connection (permessage-deflate not negotiated, negotiated with defaults, or with drawn window bits and "
            "no_context_takeover flags that the inflating peer honours), then 1-6 calls drawn from send_text / send_binary "
            "(compress True/False) / send_json (positional, keyword, both, unencodable) / send_ping / send_pong / "
            "close(code 0..65535|None, reason str|bytes) incl. invalid ones (wrong types, 126-300 byte control payloads, "
            "close reasons over 123 bytes), with Hypothesis-drawn masking keys; the bytes passed to sendall by each call are "
            "decoded by the strict independent decoder (exactly one frame, FIN, masked with the drawn key, minimal length form, "
            "RSV as required, control <= 125) and unmasked/inflated back to the caller's payload; invalid calls must raise "
            "TypeError/ValueError and write nothing; arguments are compared with a deep copy. A scheduled stage (C11's deterministic scheduler, every "
            "thread order x every single preemption) repeats calls of every length class (short, 300 bytes, 70 000-150 000 bytes) "
            "while another thread or the event loop writes: each call's frame must be on the wire whole. Exhaustive part: every payload "
            "length 0..1100 and 65530..65545 x 4 fixed keys x text/binary. Non-trivial = payload in a 16/64-bit length class or "
            "exactly at 125/126/65535/65536, or an invalid call.")
    assumptions = ("harness/wire.py strict decoder (self-tested)", "json.loads as the inverse of the JSON encoding")
    examples = {"quick": 3000, "thorough": 150000}

    def strategy(self, tier):
        bytes_arg = gen.binary_spec(big=True, cap=70000)
        text_arg = gen.text_spec(big=True, cap_chars=30000)
        surrogate = st.tuples(st.just("surrogate"), st.one_of(st.sampled_from(SURROGATES), st.integers(0xD800, 0xDFFF)),
                              st.integers(0, 3)).map(list)
        wrong_for_text = st.one_of(bytes_arg, st.just(["none"]), st.just(["int", 7]), st.just(["surrogate"]), surrogate,
                                   st.just(["bytearray", "6162"]), st.just(["list"]))
        wrong_for_bytes = st.one_of(text_arg, st.just(["none"]), st.just(["int", 7]), st.just(["float"]),
                                    st.binary(max_size=10).map(lambda b: ["bytearray", b.hex()]),
                                    st.binary(max_size=10).map(lambda b: ["memoryview", b.hex()]))
        ctrl_ok = gen.control_payload()
        ctrl_big = st.tuples(st.just("rand"), st.integers(126, 300), gen.seeds).map(list)
        json_val = st.recursive(
            st.one_of(st.none(), st.booleans(), st.integers(-2 ** 53, 2 ** 53), st.text(max_size=8),
                      st.floats(allow_nan=False, allow_infinity=False, width=32)),
            lambda ch: st.one_of(st.lists(ch, max_size=4), st.dictionaries(st.text(max_size=5), ch, max_size=4)),
            max_leaves=8)
        ident = st.from_regex(r"[a-z][a-z0-9_]{0,6}", fullmatch=True).filter(lambda s: s != "_obj")
        kw = st.dictionaries(ident, json_val, min_size=1, max_size=3)
        comp = st.sampled_from([None, True, False])

        def data_call(m, arg, c):
            d = {"m": m, "arg": arg}
            if c is not None:
                d["compress"] = c
                d["positional"] = len(str(arg)) % 2 == 0     # compress passed positionally or by keyword
            return d
        reason_ok = st.one_of(gen.close_reason().map(lambda s: ["s", s]),
                              st.binary(max_size=123).map(lambda b: ["b", b.hex()]))
        reason_big = st.one_of(
            st.integers(124, 400).map(lambda n: ["s", "r" * n]),
            st.integers(124, 400).map(lambda n: ["b", (b"z" * n).hex()]),
            st.integers(42, 100).map(lambda n: ["s", "€" * n]))
        call = gen.weighted([
            (4, st.builds(data_call, st.just("send_text"), text_arg, comp)),
            (4, st.builds(data_call, st.just("send_binary"), bytes_arg, comp)),
            (1, st.builds(data_call, st.just("send_text"), wrong_for_text, comp)),
            (1, st.builds(data_call, st.just("send_binary"), wrong_for_bytes, comp)),
            (2, st.builds(lambda m, a: {"m": m, "arg": a}, st.sampled_from(["send_ping", "send_pong"]), ctrl_ok)),
            (1, st.builds(lambda m, a: {"m": m, "arg": a}, st.sampled_from(["send_ping", "send_pong"]), ctrl_big)),
            (1, st.builds(lambda m, a: {"m": m, "arg": a}, st.sampled_from(["send_ping", "send_pong"]), wrong_for_bytes)),
            (2, json_val.map(lambda o: {"m": "send_json", "obj": o})),
            (1, kw.map(lambda k: {"m": "send_json", "kwargs": k})),
            (1, st.tuples(json_val, kw).map(lambda t: {"m": "send_json", "obj": t[0], "kwargs": t[1], "both": True})),
            (1, st.sampled_from(["set", "bytes"]).map(lambda u: {"m": "send_json", "unencodable": u})),
            (2, st.builds(lambda c, r: {"m": "close", "code": c, "reason": r},
                          st.one_of(st.none(), st.sampled_from([1000, 1001, 1005, 4999, 0, 65535]), st.integers(0, 65535)),
                          reason_ok)),
            (1, st.builds(lambda c, r: {"m": "close", "code": c, "reason": r}, st.integers(0, 65535), reason_big)),
            (1, st.builds(lambda c, r: {"m": "close", "code": c, "reason": ["wrong", r]},
                          st.sampled_from([1000, 1001, None, 3000]), st.sampled_from(sorted(WRONG_REASONS)))),
        ])
        key = st.one_of(st.sampled_from(FIXED_KEYS), st.binary(min_size=4, max_size=4).map(lambda b: b.hex()))
        return st.fixed_dictionaries({
            "calls": st.lists(call, min_size=1, max_size=6),
            "keys": st.lists(key, min_size=6, max_size=6),
            "deflate": gen.deflate_opt(),
            # the socket write of the last call is interrupted / would block (before or after part of it went out)
            "send_fault": gen.weighted([(6, st.none()), (1, st.sampled_from(SEND_FAULTS))]),
            # the application has switched on DEBUG logging for the library
            "debug_log": gen.debug_log(),
            # an earlier connection in this process (same WebSocket object or another) and how it ended
            "prelude": gen.prelude(),
            # a second live connection in the same process (interleaved with this one, or blocked in a send)
            "companion": gen.companion(),
        })

    def enumerations(self, tier):
        def sweep():
            lens = list(range(0, 1101)) + list(range(65530, 65546))
            for key in FIXED_KEYS:
                for kind in ("send_text", "send_binary"):
                    for i in range(0, len(lens), 6):
                        calls = []
                        for n in lens[i:i + 6]:
                            arg = ["ascii", n, n] if kind == "send_text" else ["rand", n, n]
                            calls.append({"m": kind, "arg": arg})
                        yield {"calls": calls, "keys": [key] * 6, "deflate": False}
        calls = [{"m": "send_text", "arg": ["str", "earlier connection " * 3 + "and this one"]},
                 {"m": "send_binary", "arg": ["hex", "00ff" * 10 + "aa"]},
                 {"m": "send_text", "arg": ["str", "earlier connection " * 3], "compress": False, "positional": False},
                 {"m": "send_ping", "arg": ["hex", "70"]}, {"m": "send_json", "obj": {"a": [1, 2]}},
                 {"m": "close", "code": 1000, "reason": ["s", "bye"]}]
        battery = [{"calls": calls, "keys": FIXED_KEYS[:1] * 6, "deflate": d}
                   for d in (False, True, {"sb": 15, "cb": 9, "snct": False, "cnct": True})]
        # "exactly one complete frame" per accepted call also while ANOTHER thread writes: a scheduled stage (the
        # deterministic scheduler of C11; every thread order x every single preemption) over calls of every length class
        from props import c11

        class _Sched(c11.C11):
            id = "C03"

            def scenarios(self_inner):
                # (two compressing senders: unmasking AND inflating in wire order must give back each caller's payload)
                names = ("2x1_text_plain", "2x1_text_ping_deflate", "2x1_text_binary_deflate", "2x1_text_deflate", "medium_vs_ping_plain", "large_vs_ping_plain",
                         "large_vs_text_plain", "large_uncompressed_vs_ping_deflate", "large_incompressible_vs_ping_deflate",
                         "large_vs_autopong_plain")
                return {n: c11.SCENARIOS[n] for n in names}

            def bound2(self_inner):
                return []
        self._sched = _Sched()
        inner = self._sched.enumerations(tier)[0]

        def scheduled():
            for c in inner.make():
                yield dict(c, sched=True)
        def unencodable_texts():
            # text that has no UTF-8 form must be refused (ValueError) and write nothing, wherever the unpaired
            # surrogate sits and whichever it is
            for cp in SURROGATES:
                for deflate in (False, True):
                    yield {"calls": [{"m": "send_text", "arg": ["surrogate", cp, pos]} for pos in range(4)] +
                                    [{"m": "send_text", "arg": ["str", "still fine"]}],
                           "keys": FIXED_KEYS[1:2] * 6, "deflate": deflate}

        def special_texts():
            # code points that codecs and text tools treat specially, alone / doubled / first / middle / last,
            # as text, as JSON and as a close reason
            for ch in gen.SPECIAL_CHARS:
                variants = [ch, ch + ch, ch + "abc", "x" + ch + "y", "end" + ch]
                for deflate in (False, True):
                    yield {"calls": [{"m": "send_text", "arg": ["str", v]} for v in variants] +
                                    [{"m": "send_json", "obj": {"k" + ch: [ch, variants[2]]}}],
                           "keys": FIXED_KEYS[2:3] * 6, "deflate": deflate}
                yield {"calls": [{"m": "send_json", "kwargs": {"text": ch + "z"}},
                                 {"m": "close", "code": 1000, "reason": ["s", ch + "bye" + ch]}],
                       "keys": FIXED_KEYS[3:4] * 6, "deflate": False}
        def deflate_orders():
            # under permessage-deflate what a message compresses to depends on the messages before it (and an empty
            # one is a corner of its own): every ordered pair of length classes, and every pair around an empty message
            lens = [0, 1, 2, 5, 6, 125, 126, 127, 1000, 65535, 65536, 70000]
            for cfg in (True, {"sb": 15, "cb": 15, "snct": False, "cnct": True}, {"sb": 9, "cb": 9, "snct": True, "cnct": False}):
                for kind in ("send_text", "send_binary"):
                    for a in lens:
                        for b in lens:
                            for seq in ((a, b), (a, 0, b)):
                                yield {"calls": [{"m": kind, "arg": (["ascii", n, n + i] if kind == "send_text" else
                                                                     ["rep", n, n + i])} for i, n in enumerate(seq)],
                                       "keys": FIXED_KEYS[:1] * 6, "deflate": cfg}
            # unequal windows: what the client may refer back to is bounded by ITS window (client_max_window_bits), inside
            # a message and across messages - payloads that repeat further back than the smaller window
            for sb, cb in ((15, 9), (9, 15), (12, 10), (10, 12), (15, 8)):
                for cnct in (False, True):
                    cfg = {"sb": sb, "cb": cb, "snct": False, "cnct": cnct}
                    yield {"calls": [{"m": "send_binary", "arg": ["echo", 9000, sb, 3000]},
                                     {"m": "send_text", "arg": ["ascii", 3000, cb]}, {"m": "send_text", "arg": ["ascii", 3000, cb]},
                                     {"m": "send_binary", "arg": ["echo", 70000, cb, 20000]}],
                           "keys": FIXED_KEYS[:1] * 6, "deflate": cfg}
        from harness.runner import with_debug_log
        def wrong_close_arguments():
            for kind in sorted(WRONG_REASONS):
                for code in (1000, None, 4999):
                    for deflate in (False, True):
                        yield {"calls": [{"m": "send_text", "arg": ["str", "before"]},
                                         {"m": "close", "code": code, "reason": ["wrong", kind]},
                                         {"m": "send_text", "arg": ["str", "still open"]},
                                         {"m": "close", "code": 1000, "reason": ["s", "bye"]}],
                               "keys": FIXED_KEYS[:1] * 6, "deflate": deflate}

        def failing_writes():
            for how in SEND_FAULTS:
                for cfg in (False, True):
                    for kind in ("send_text", "send_binary", "send_ping", "send_json"):
                        for n in (0, 5, 125, 126, 70000):
                            if kind == "send_ping" and n > 125:
                                continue
                            last = {"m": kind, "arg": ["ascii", n, n] if kind == "send_text" else ["rand", n, n]}
                            if kind == "send_json":
                                last = {"m": "send_json", "obj": {"k": "v" * n}}
                            yield {"calls": [{"m": "send_text", "arg": ["str", "before"]}, last], "keys": FIXED_KEYS[:1] * 6,
                                   "deflate": cfg, "send_fault": how}
        return [Enumeration("length_sweep_x_4_keys", sweep, exhaustive=True), after_every_prelude(battery),
                Enumeration("the_socket_write_of_a_call_fails", failing_writes, exhaustive=True),
                Enumeration("close_with_a_reason_of_the_wrong_type", wrong_close_arguments, exhaustive=True), with_debug_log(battery),
                Enumeration("deflate_message_orders", deflate_orders, exhaustive=True),
                Enumeration("one_complete_frame_per_call_while_another_thread_writes", scheduled, exhaustive=True),
                Enumeration("special_code_points_round_trip", special_texts, exhaustive=True),
                Enumeration("unencodable_text_is_refused", unencodable_texts, exhaustive=True)]

    def run_case(self, case):
        if case.get("sched"):
            if not hasattr(self, "_sched"):
                self.enumerations("quick")
            inner = dict(case)
            inner.pop("sched")
            return self._sched.run_case(inner)
        negotiated = bool(case["deflate"])
        calls = case["calls"]
        results = []
        peer = deflateref.peer_of(case["deflate"])     # honours the negotiated windows and no_context_takeover flags
        labels = set()
        nontrivial = False
        state = {"closed": False}

        def on_event(ws, ev, tr):
            if ev.name != "ready":
                return
            sim = tr.sim
            for ci, call in enumerate(calls):
                before_log = len(sim.log)
                before_mask = sim.mask_i
                rec = {"call": call}
                if case.get("send_fault") and ci == len(calls) - 1:
                    # the socket write of the LAST call fails: interrupted / would block, before anything went out or
                    # after part of the frame did (nothing follows, so a torn frame cannot be mistaken for a later one)
                    att = sim.attempt()
                    if att is not None:
                        att.setdefault("faults", {})["send"] = {str(sim.op_counts.get("send", 0)): case["send_fault"]}
                        rec["faulted"] = case["send_fault"]
                try:
                    arg, keep = perform(ws, call)
                    rec["exc"] = None
                    rec["unchanged"] = same(arg, keep)
                except simnet.HarnessSignal:
                    raise
                except Exception as error:   # noqa - classified below
                    rec["exc"] = error
                    rec["unchanged"] = True
                rec["wrote"] = b"".join(e[2] for e in sim.log[before_log:] if e[0] == "send")
                rec["nwrites"] = sum(1 for e in sim.log[before_log:] if e[0] in ("send", "send_fail"))
                rec["key"] = sim.masks[before_mask] if sim.mask_i > before_mask and before_mask < len(sim.masks) else None
                rec["keys_used"] = sim.mask_i - before_mask
                results.append(rec)

        scn = build.scenario(
            [["wait_request"], ["stream", [["reply", httpref.canonical_spec(extensions=[deflateref.header_of(case["deflate"])]) if negotiated else None]], "whole", 0.0],
             ["eof", 1.0]],
            ws_opts={"compress": True} if negotiated else None,
            connect_opts={"ping_rate": 0}, masks=case["keys"])
        tr = simnet.run_scenario(scn, on_event=on_event)
        if tr.hang:
            return failed("hang", tr.hang)
        if tr.escaped:
            return failed("escaped_exception", tr.escaped)
        if len(results) != len(calls):
            return failed("no_ready", "Ready not reached: %s" % tr.names())
        closing = False
        for i, rec in enumerate(results):
            call = rec["call"]
            exp = expected_of(call, negotiated)
            labels.add(call["m"] + (":reject" if exp[0] == "reject" else ""))
            exc = rec["exc"]
            wrote = rec["wrote"]
            what = "call %d %s" % (i, json.dumps(call)[:160])
            if not rec["unchanged"]:
                return failed("argument_modified", what + ": caller's object changed", labels, True)
            if exp[0] == "reject":
                nontrivial = True
                if rec["nwrites"]:
                    sig = "oversize_close_reason_written" if call["m"] == "close" else "invalid_call_wrote"
                    return failed(sig, what + ": an unsendable call wrote %d bytes (%s...) exc=%r" % (
                        len(wrote), wrote[:8].hex(), exc), labels, True)
                ok_types = exp[1]
                if closing:
                    from lomond.errors import WebSocketError
                    ok_types = ok_types + (WebSocketError,)
                if closing and call["m"] == "close" and exc is None:
                    continue   # close() on a closing connection is a documented no-op
                if exc is None or not isinstance(exc, ok_types):
                    return failed("invalid_call_wrong_exception", what + ": expected %s, got %r" % (
                        [t.__name__ for t in exp[1]], exc), labels, True)
                continue
            if closing:
                # after an accepted close() every later send is refused (C08); nothing may be written
                from lomond.errors import WebSocketError
                if rec["nwrites"] or not (isinstance(exc, WebSocketError) or (call["m"] == "close" and exc is None)):
                    return failed("write_after_close", what + ": after close(): exc=%r wrote=%d bytes" % (exc, len(wrote)),
                                  labels, nontrivial)
                continue
            if rec.get("faulted") and exc is not None:
                # the write failed and the call said so: not an accepted call (whatever part of the frame went out)
                from lomond.errors import WebSocketError
                if not isinstance(exc, WebSocketError):
                    return failed("send_error_not_websocket_error", what + ": socket write failed (%s), the call raised %r" % (
                        rec["faulted"], exc), labels, True)
                labels.add("write_failed:" + rec["faulted"])
                nontrivial = True
                continue
            if rec.get("faulted") and call["m"] == "close":
                # close() reports no transport trouble (C09: the library swallows it): nothing more to check here
                labels.add("close_write_failed:" + rec["faulted"])
                closing = True
                continue
            if rec.get("faulted"):
                # the write failed but the call returned normally: then exactly one complete frame must be there
                labels.add("write_failed_but_call_returned:" + rec["faulted"])
            if exc is not None:
                return failed("valid_call_raised", what + ": raised %r" % (exc,), labels, nontrivial)
            frames, problems = wire.decode_client_frames(wrote)
            if problems or len(frames) != 1:
                sig = "invalid_client_frame"
                return failed(sig, what + ": wrote %d frames; %s; head=%s" % (
                    len(frames), "; ".join(problems), wrote[:14].hex()), labels, nontrivial)
            f = frames[0]
            if rec["nwrites"] != 1:
                labels.add("frame_written_in_several_sendall_calls")
            if not f.fin:
                return failed("invalid_client_frame", what + ": FIN not set", labels, nontrivial)
            if rec["key"] is None or f.key != rec["key"] or rec["keys_used"] != 1:
                return failed("masking_key", what + ": frame key %s, drawn key %s (%d keys requested)" % (
                    f.key.hex() if f.key else None, rec["key"].hex() if rec["key"] else None, rec["keys_used"]),
                              labels, nontrivial)
            kind, opcode, payload, rsv1 = exp
            if f.opcode != opcode:
                return failed("wrong_opcode", what + ": opcode %d expected %d" % (f.opcode, opcode), labels, nontrivial)
            # RSV1 may be set only if compression was negotiated and requested (``rsv1`` == 1);
            # sending a requested-compressed message uncompressed is legal per message
            if f.rsv1 and not rsv1:
                return failed("wrong_rsv1", what + ": RSV1 set although compression was not negotiated/requested "
                              "(negotiated=%s)" % negotiated, labels, nontrivial)
            body = f.payload
            if f.rsv1:
                try:
                    body = peer.inflate(body)
                except deflateref.InflateError as error:
                    return failed("peer_cannot_inflate", what + ": %s" % error, labels, nontrivial)
            if kind == "json":
                try:
                    got = json.loads(body.decode("utf-8"))
                except Exception as error:
                    return failed("payload_mismatch", what + ": payload is not JSON: %r" % (error,), labels, nontrivial)
                if got != payload:
                    return failed("payload_mismatch", what + ": JSON round trip gives %r" % (got,), labels, nontrivial)
                n = len(body)
            else:
                if body != payload:
                    return failed("payload_mismatch", what + ": unmasked payload (%d bytes) differs from the caller's "
                                  "(%d bytes)" % (len(body), len(payload)), labels, nontrivial)
                n = len(payload)
            labels.add("form%d" % f.form)
            if f.form != 7 or n in (125, 126, 65535, 65536):
                nontrivial = True
            if call["m"] == "close":
                closing = True
        return held(labels, nontrivial)


PROP = C03()
