"""C15 - keep-alive, timeouts and polling fire when, and only when, they should."""
import struct

from hypothesis import strategies as st

from harness import build, gen, simnet, wire
from harness.runner import Prop, Enumeration, held, failed

B = wire.build_frame
GRID = 0.125   # all generated times are multiples of 1/8 s: lomond's float arithmetic is exact on them

POLLS = [0.5, 1.0, 2.0, 5.0]
RATES = [0, 0, 0.5, 1.0, 3.0, 7.5, 30.0]
PTIMEOUTS = [None, None, 0, 1.0, 2.5, 10.0]
CTIMEOUTS = [None, 0, 0.5, 2.0, 8.0]

FRAMES = {
    "pong": B(wire.PONG, b"k"),
    "text": B(wire.TEXT, b"data"),
    "ping": B(wire.PING, b"srv"),
    "binary": B(wire.BINARY, b"\x00"),
    # exactly one receive buffer (65536 bytes) in one read, nothing behind it
    "binary_64k": B(wire.BINARY, b"k" * (65536 - 4)),
}


def scenario_of(case):
    t_reply = case["t_reply"] * GRID
    script = [["wait_request"], ["stream", [["reply", None]], "whole", t_reply]]
    now = t_reply
    arrivals = sorted((a[0] * GRID + t_reply, a[1]) for a in case["arrivals"])
    horizon = case["horizon"] * GRID + t_reply
    items = [(t, FRAMES[k]) for t, k in arrivals if t < horizon]
    if case.get("reply_at") is not None:
        items.append((case["reply_at"] * GRID + t_reply, B(wire.CLOSE, struct.pack("!H", 1000))))
    if case.get("server_close_at") is not None:
        # the SERVER starts the closing handshake and then does not drop the connection (until the horizon): the
        # client's echo is "a Close sent by the client" whose completion is the server's to deliver
        items.append((case["server_close_at"] * GRID + t_reply, B(wire.CLOSE, struct.pack("!H", 1001) + b"srv")))
    items = sorted((t, d) for t, d in items if t < horizon)
    for t, d in items:
        script.append(["stream", [["bytes", d]], "whole", t - now])
        now = t
    script.append(["eof", horizon - now])
    reactions = []
    if case.get("close_at") is not None:
        reactions.append({"when": ["time_after_ready", case["close_at"] * GRID + t_reply], "do": [["close", 1000, "bye"]]})
        # the application goes on using the object while the closing handshake is pending: further close() calls
        # (documented no-ops) and sends (refused) at later times must not move any deadline
        for off, what in case.get("while_closing", []):
            action = {"close": ["close", 1001, "again"], "close_default": ["close"], "send": ["send_text", "late"],
                      "ping": ["ping", "6c"]}[what]
            reactions.append({"when": ["time_after_ready", (case["close_at"] + off) * GRID + t_reply], "do": [action]})
    copts = {"poll": case["p"], "ping_rate": case["r"], "ping_timeout": case["t"], "close_timeout": case["c"]}
    if case.get("auto_pong") is not None:
        # the remaining connect() option; it only says whether the server's Pings are answered
        copts["auto_pong"] = case["auto_pong"]
    extra = None
    if case.get("close_write_delay"):
        # the write that carries the client's Close takes this long: "sent" is when it has gone out
        extra = {"faults": {"send_close": "slow:%r" % (case["close_write_delay"] * GRID)}}
    return build.scenario(script, connect_opts=copts, reactions=reactions, horizon=horizon + 100.0, attempt_extra=extra)


def judge(case, tr):
    """Timing oracle; returns (signature, detail) or None.  Also returns labels."""
    p, r, t, c = case["p"], case["r"], case["t"], case["c"]
    labels = set()
    names = tr.names()
    if tr.hang or tr.horizon:
        return ("hang", tr.hang or "still running long after the EOF time; events %s" % names[-8:]), labels
    if tr.escaped:
        return ("escaped_exception", tr.escaped), labels
    if "protocol_error" in names:
        # all scripted frames are valid: a ProtocolError is some other property's violation, and it ends the
        # connection for reasons no timer is responsible for
        labels.add("inconclusive:protocol_error_for_valid_frames")
        return None, labels
    if "ready" not in names or names[-1] != "disconnected":
        # never Ready / not ended by Disconnected: no timing statement applies (C07, C09, C10 judge such runs)
        labels.add("inconclusive:not_ready_or_no_disconnected")
        return None, labels
    t0 = [e["t"] for e in tr.events if e["name"] == "ready"][0]
    rel = lambda x: x - t0   # noqa
    E = rel(tr.events[-1]["t"])
    graceful = tr.events[-1].get("graceful")
    # ---- polls
    polls = [rel(e["t"]) for e in tr.events if e["name"] == "poll"]
    # ---- when did the client's Close go out
    s_close = None
    pings = []
    for e in tr.sim.log:
        if e[0] != "send" or e[2].startswith(b"GET "):
            continue
        frames, _ = wire.decode_frames(e[2])
        for f in frames:
            if f.opcode == wire.CLOSE and s_close is None:
                s_close = rel(e[3])
            if f.opcode == wire.PING and e[4] == "lib":
                pings.append(rel(e[3]))
    # a Close write that takes time d keeps the calling thread - the event loop's - busy for that long (like a slow
    # handler): the one Poll gap around it may be longer by d, and keep-alive deadlines inside it are not judged
    slow = (case.get("close_write_delay") or 0) * GRID if s_close is not None else 0
    busy = (s_close - slow, s_close) if slow else None
    # (a close() in the Ready handler whose write takes time delays the first Poll by that much)
    if not polls or not (polls[0] == 0 or (busy and busy[0] <= 0 and polls[0] <= busy[1])):
        return ("first_poll", "first Poll at %r after Ready (expected right after Ready); polls %s" % (
            polls[:1], polls[:5])), labels
    for a, b in zip(polls, polls[1:] + [E]):
        extra = slow if busy and a <= busy[1] and b >= busy[0] else 0
        if b - a < p and b is not E:
            return ("poll_too_soon", "Polls at %s and %s are closer than poll=%s" % (a, b, p)), labels
        if b - a > 2 * p + extra:
            return ("poll_too_late", "Polls (or the end) at %s and %s are further apart than 2*poll=%s" % (a, b, 2 * p)), labels
    app_closed = any(a["action"][0] == "close" for a in tr.actions)
    server_closed_first = "closing" in names
    open_until = s_close if s_close is not None else E
    # ---- automatic pings
    if slow:
        labels.add("slow_close_write")
    if slow:
        pass
    elif not r:
        if pings:
            return ("ping_with_rate_0", "automatic Pings at %s although ping_rate is 0" % pings[:4]), labels
    else:
        labels.add("pings:%d" % min(len(pings), 5))
        seen = set()
        for g in pings:
            if g <= 0:
                return ("ping_at_ready", "automatic Ping at time %s (not after Ready)" % g), labels
            k = -(-g // r) - 1    # period (k r, (k+1) r]
            if k in seen:
                return ("ping_twice_in_period", "two automatic Pings in period (%s, %s]: %s" % (
                    k * r, (k + 1) * r, pings)), labels
            seen.add(k)
        m = 0.0
        while m + p < open_until:
            lo_ok = [g for g in pings if (g > m if m == 0 else g >= m) and g <= m + p]
            if not lo_ok and "unresponsive" not in names[:1]:
                # the connection may have ended (Unresponsive / forced) before m + p
                if m + p < E:
                    return ("ping_missing", "no automatic Ping within poll=%s after t=%s (ping_rate=%s, open until %s): "
                            "pings at %s" % (p, m, r, open_until, pings)), labels
            m += r
    # ---- ping timeout
    pong_times = [rel(e["t"]) for e in tr.events if e["name"] == "pong"]
    unresp = [(i, rel(e["t"])) for i, e in enumerate(tr.events) if e["name"] == "unresponsive"]
    if slow:
        pass
    elif unresp:
        i, u = unresp[0]
        L = max([0.0] + [x for x in pong_times if x <= u])
        if not t:
            return ("unresponsive_without_timeout", "Unresponsive at %s with ping_timeout=%r" % (u, t)), labels
        if not (L + t < u <= L + t + p):
            return ("unresponsive_timing", "Unresponsive at %s; last Pong/Ready at %s, ping_timeout=%s, poll=%s: "
                    "allowed window (%s, %s]" % (u, L, t, p, L + t, L + t + p)), labels
        if names[i + 1:] != ["disconnected"] or graceful is not False:
            return ("after_unresponsive", "events after Unresponsive: %s graceful=%r" % (names[i + 1:], graceful)), labels
        labels.add("unresponsive_fired")
    elif t:
        marks = [0.0] + pong_times + [E]
        for a, b in zip(marks, marks[1:]):
            if b - a > t + p:
                return ("unresponsive_missing", "no Pong between %s and %s (more than ping_timeout=%s + poll=%s) "
                        "and no Unresponsive; events %s" % (a, b, t, p, names[-6:])), labels
            if t < b - a:
                labels.add("timeout_just_avoided")
    # ---- close timeout
    if s_close is not None and app_closed and not server_closed_first:
        completed = "closed" in names
        horizon_rel = case["horizon"] * GRID
        if completed:
            if graceful is not True:
                return ("not_graceful", "closing handshake completed but Disconnected(graceful=%r)" % graceful), labels
            labels.add("close_completed")
        elif unresp:
            pass
        elif c:
            if E < s_close + c and E < horizon_rel:
                return ("forced_too_early", "Close sent at %s, close_timeout=%s, disconnected already at %s" % (
                    s_close, c, E)), labels
            if E > s_close + c + p:
                return ("forced_too_late", "Close sent at %s, close_timeout=%s, poll=%s: still connected at %s" % (
                    s_close, c, p, E)), labels
            if E < horizon_rel:
                if graceful is not False:
                    return ("forced_graceful", "forced disconnect reported graceful"), labels
                labels.add("close_timeout_fired")
        else:
            if E < horizon_rel:
                return ("forced_without_timeout", "close_timeout=%r but the connection was dropped at %s, before the "
                        "server's EOF at %s" % (c, E, horizon_rel)), labels
    elif s_close is None and not server_closed_first and not unresp and not app_closed:
        # nothing ever started a closing handshake, no timeout is due: the connection lasts until the server's EOF
        horizon_rel = case["horizon"] * GRID
        if E < horizon_rel:
            return ("dropped_for_no_reason", "no Close frame was sent or received and no ping timeout fired, but the "
                    "connection ended at %s, before the server's EOF at %s: %r" % (E, horizon_rel, tr.events[-1])), labels
    elif s_close is not None and server_closed_first and not app_closed:
        # the echo of the server's Close: completed when the server drops the connection (the EOF at the horizon)
        horizon_rel = case["horizon"] * GRID
        if unresp:
            pass
        elif c:
            if E < s_close + c and E < horizon_rel:
                return ("forced_too_early", "Close echoed at %s, close_timeout=%s, disconnected already at %s" % (
                    s_close, c, E)), labels
            if E > s_close + c + p:
                return ("forced_too_late", "Close echoed at %s, close_timeout=%s, poll=%s, the server never dropped the "
                        "connection: still connected at %s" % (s_close, c, p, E)), labels
            if E < horizon_rel:
                if graceful is not False:
                    return ("forced_graceful", "forced disconnect reported graceful"), labels
                labels.add("close_timeout_fired")
                labels.add("close_timeout_fired_after_echo")
        else:
            if E < horizon_rel:
                return ("forced_without_timeout", "close_timeout=%r but the connection was dropped at %s, before the "
                        "server's EOF at %s" % (c, E, horizon_rel)), labels
    return None, labels


def _sched_scenarios():
    from props import racecommon as rc
    P = rc.payload_for
    # the loop idles once (the virtual clock moves on by poll = 2 s, past the first multiple of ping_rate = 1 s) and is then
    # parked: exactly one automatic Ping falls due, whatever the other threads are doing at that moment
    loop = {"bytes": "", "idle_waits": 1}
    copts = {"ping_rate": 1.0, "poll": 2.0}
    return {
        "autoping_vs_large_send": {"deflate": False, "threads": {"A": [["send_binary", rc.big_payload("A", 0, 140000)]]},
                                   "loop": loop, "copts": copts},
        "autoping_vs_two_sends": {"deflate": False, "threads": {"A": [["send_text", P("A", 0)], ["send_binary", P("A", 1)]]},
                                  "loop": loop, "copts": copts},
        "autoping_vs_compressed_senders": {"deflate": True, "threads": {"A": [["send_text", P("A", 0)]],
                                                                         "B": [["send_binary", P("B", 0)]]},
                                           "loop": loop, "copts": copts},
        "autoping_vs_application_ping": {"deflate": False, "threads": {"A": [["send_ping", "A-0:ping"]]},
                                         "loop": loop, "copts": copts},
    }


def _sched_judge(scn, out):
    from harness import wire
    if out.aborted:
        return "hang", out.aborted
    if out.leaked_threads:
        return "harness", "threads did not unwind: %s" % out.leaked_threads
    for name, err in out.errors.items():
        return "escaped_exception", "thread %s: %r" % (name, err)
    for name, st_ in out.states.items():
        if st_ not in ("done", "parked"):
            return "deadlock", "thread %s ended in state %s" % (name, st_)
    frames, problems = wire.decode_client_frames(out.wire)
    if problems:
        return "torn_or_invalid_frames", "; ".join(problems[:3])
    own = set()
    for name, calls in scn["threads"].items():
        for call, result, mro in out.results.get(name, []):
            if result != "ok":
                return "send_refused", "%s by %s raised %s on an open connection" % (call[0], name, result)
            if call[0] == "send_ping":
                own.add(call[1].encode("utf-8"))
    auto = [f for f in frames if f.opcode == wire.PING and f.payload not in own]
    if len(auto) != 1:
        return "ping_schedule", ("one multiple of ping_rate was crossed while the connection was open, yet %d automatic Pings "
                                 "are on the wire (frames: %s)" % (len(auto), [wire.OPNAMES.get(f.opcode) for f in frames]))
    return None


class C15(Prop):
    id = "C15"
    level = "exploration"
    rule = ("virtual-clock histories: poll p, ping_rate r (incl. 0), ping_timeout t (incl. None/0), close_timeout c (incl. None/0) "
            "from dyadic grids, auto_pong on/off x 0-15 arrivals (Pong/Ping/data) at generated times on a 1/8 s grid (optionally exactly on multiples "
            "of r or p, or one grid step before/after a deadline) x optional close() at the first event at/after a drawn time, then optionally further close() calls / "
            "sends while the closing handshake is pending x "
            "optional server Close reply at a drawn time x handshake reply delayed by a drawn time x EOF at a horizon. Oracle: "
            "bounds on the virtual timestamps of Poll / Unresponsive / Disconnected events and of automatic Ping frames, relative "
            "to Ready, exactly as in the statement. Non-trivial = a ping / unresponsive / close-timeout fires, or is just avoided "
            "(an arrival within one grid step of a deadline).")
    assumptions = ("handler execution time is zero on the virtual clock",
                   "all times are multiples of 1/8 s so that the client's float arithmetic is exact and no tolerance is needed")
    examples = {"quick": 4000, "thorough": 250000}

    def strategy(self, tier):
        @st.composite
        def case(draw):
            p = draw(st.sampled_from(POLLS))
            r = draw(st.sampled_from(RATES))
            t = draw(st.sampled_from(PTIMEOUTS))
            c = draw(st.sampled_from(CTIMEOUTS))
            horizon = draw(st.integers(4, 400))
            anchors = [0, int(p / GRID)]
            if r:
                anchors += [int(r / GRID) * k for k in (1, 2, 3)]
            if t:
                anchors += [int(t / GRID), int((t + p) / GRID)]
            near = st.builds(lambda a, d: max(0, a + d), st.sampled_from(anchors), st.integers(-1, 1))
            when = st.one_of(st.integers(0, horizon), near, near)
            arrivals = draw(st.lists(st.tuples(when, st.sampled_from(["pong", "pong", "pong", "text", "ping", "binary", "binary_64k"])).map(list),
                                     max_size=15))
            close_at = draw(st.one_of(st.none(), st.integers(0, horizon), near))
            reply_at = None
            if close_at is not None and draw(st.booleans()):
                base = close_at + int(p / GRID)
                reply_at = base + draw(st.one_of(st.integers(0, 80), st.sampled_from(
                    [int(x / GRID) for x in (c or 0, (c or 0) + p)] + [0]), ))
            while_closing = []
            if close_at is not None:
                while_closing = draw(st.lists(st.tuples(st.integers(1, 120), st.sampled_from(
                    ["close", "close", "close_default", "send", "ping"])).map(list), max_size=4))
            server_close_at = None
            if close_at is None:
                server_close_at = draw(st.one_of(st.none(), st.integers(0, horizon), near))
            return {"p": p, "r": r, "t": t, "c": c, "horizon": horizon, "arrivals": arrivals, "server_close_at": server_close_at,
                    "close_write_delay": draw(st.sampled_from([0, 0, 0, 1, 8, 40])),
                    "close_at": close_at, "reply_at": reply_at, "t_reply": draw(st.sampled_from([0, 0, 3, 10])),
                    "while_closing": while_closing, "auto_pong": draw(st.sampled_from([None, True, False])), "prelude": draw(gen.prelude(6)), "companion": draw(gen.companion(6)), "noise_calls": draw(gen.noise_calls())}
        return case()

    def enumerations(self, tier):
        def grid():
            # every parameter combination with silence, with a steady stream of Pongs, and with a client close
            for p in POLLS:
                for r in sorted(set(RATES)):
                    for t in (None, 0, 1.0, 2.5, 10.0):
                        for c in CTIMEOUTS:
                            for kind in range(7):
                                arr = [] if kind != 1 else [[k * 8, "pong"] for k in range(1, 12)]
                                # kind 3: close(), then close() again every second while the handshake is pending
                                again = [[8 * k, "close"] for k in range(1, 12)] if kind == 3 else []
                                for ap in ((None, False) if kind == 1 else (None,)):
                                    yield {"p": p, "r": r, "t": t, "c": c, "horizon": 120, "arrivals": arr,
                                           "close_at": 24 if kind in (2, 3, 5) else None, "reply_at": None, "t_reply": 3,
                                           # kind 4: the server closes, the client echoes, the server stays connected
                                           "server_close_at": 24 if kind == 4 else None,
                                           # kind 5: close() whose Close frame takes 4 s to go out; kind 6: no close at all,
                                           # but calls that are refused for their arguments (an oversize close reason ...)
                                           "close_write_delay": 32 if kind == 5 else 0,
                                           "noise_calls": [{"when": ["event", "poll", 1], "do": "bad_close_reason"},
                                                           {"when": ["event", "poll", 2], "do": "bad_close_code"}] if kind == 6 else [],
                                           "while_closing": again, "auto_pong": ap}
        # "an automatic Ping is written within p after every multiple of r" also while ANOTHER THREAD is in the middle of a
        # send (holding the write lock, half of its frame on the wire) at the moment the Ping falls due: a scheduled stage
        # (the deterministic scheduler of C11/C12; every thread order x every single preemption)
        from props.c11 import C11

        class _Sched(C11):
            id = "C15"

            def scenarios(self_inner):
                return _sched_scenarios()

            def judge(self_inner, scn, out):
                return _sched_judge(scn, out)

            def bound2(self_inner):
                return []

            def first_use(self_inner):
                return []

            def in_write(self_inner):
                return []
        self._sched = _Sched()
        inner = self._sched.enumerations(tier)[0]

        def scheduled():
            for c in inner.make():
                yield dict(c, sched=True)
        return [Enumeration("parameter_grid", grid, exhaustive=True),
                Enumeration("ping_falls_due_while_another_thread_sends_all_single_preemptions", scheduled, exhaustive=True)]

    def run_case(self, case):
        if case.get("sched"):
            if not hasattr(self, "_sched"):
                self.enumerations("quick")
            inner = dict(case)
            inner.pop("sched")
            return self._sched.run_case(inner)
        tr = simnet.run_scenario(scenario_of(case))
        bad, labels = judge(case, tr)
        labels.add("p=%s" % case["p"])
        nontrivial = bool(labels & {"unresponsive_fired", "timeout_just_avoided", "close_timeout_fired"}) or \
            any(lab.startswith("pings:") and lab != "pings:0" for lab in labels)
        if bad:
            return failed(bad[0], bad[1], labels, nontrivial)
        return held(labels, nontrivial)


PROP = C15()
