"""C07 - every connection attempt yields a well-formed, finite event sequence."""
import itertools
import struct

from hypothesis import strategies as st

from harness import build, gen, simnet, wire, httpref
from harness.runner import Prop, Enumeration, held, failed, with_wsopts
from props.c04 import deflate_reply

B = wire.build_frame

ALPHABET = [
    "reply", "reply_deflate", "reply_403", "reply_bad_accept", "reply_17k",
    "text", "text_frag", "cont_fin", "ping", "pong", "close_1000", "close_empty",
    "rsv_frame", "bad_utf8", "half_frame", "short_silence", "long_silence", "eof", "reset",
    "silence",      # the server stays connected and says nothing more, ever (no EOF): only a timer can end this
    # the transport fails for good and every later read reports the same error: a fatal TLS alert / bad
    # record (such histories run over wss://) and a routing failure (EHOSTUNREACH)
    "tls_error", "io_error",
    # one binary message whose frame is exactly as long as the client's receive buffer (65536 bytes): a read that
    # fills the buffer to the last byte, with nothing behind it
    "binary_64k",
    # the server stays connected and keeps talking without ever completing anything: one enormous frame whose payload
    # trickles in, a byte every 0.9 s, for ever (no event ever results, and the socket is readable before every poll
    # interval has passed): only a timer can end this, and the timers must still run
    "chatter",
]
ENDERS = ("eof", "reset", "silence", "tls_error", "io_error", "chatter")
CHATTER_HORIZON = 150.0
# the connection goes through an HTTP proxy: what the proxy does with the CONNECT request
PROXY_KINDS = ["ok", "407", "stall", "stall_mid", "eof", "eof_mid", "reset_mid", "garbage"]
PROXY_200 = b"HTTP/1.1 200 Connection established\r\nVia: 1.1 p\r\n\r\n"


def proxy_script(kind):
    """Script steps after the CONNECT request; returns (steps, tunnel comes up?)."""
    if kind == "ok":
        return [["stream", [["bytes", PROXY_200]], "whole", 0.0], ["wait_requests", 2]], True
    if kind == "407":
        return [["stream", [["bytes", b"HTTP/1.1 407 Proxy Authentication Required\r\n\r\n"]], "whole", 0.0], ["eof", 0.0]], False
    if kind == "stall":
        return [], False                      # accepts the connection and never answers
    if kind == "stall_mid":
        return [["stream", [["bytes", PROXY_200[:40]]], "whole", 0.0]], False
    if kind == "eof":
        return [["eof", 0.0]], False
    if kind == "eof_mid":
        return [["stream", [["bytes", PROXY_200[:40]]], "whole", 0.0], ["eof", 0.0]], False
    if kind == "reset_mid":
        return [["stream", [["bytes", PROXY_200[:12]]], "whole", 0.0], ["reset", 0.0]], False
    if kind == "garbage":
        return [["stream", [["bytes", b"\x16\x03\x01\x02\x00" + b"\xaa" * 40 + b"\r\n\r\n"]], "whole", 0.0], ["eof", 0.0]], False
    raise ValueError(kind)
FIRST_ONLY = ["refused"]

POLICIES = ["passive", "close@connected", "close@ready", "close@message", "close@poll",
            "close@closing", "send@every", "send@closing", "send@after_closing",
            # the application's handler takes its time (longer than any poll interval used here)
            "slow@poll", "slow@message"]

OPTION_SETS = [
    {},
    {"poll": 1.0, "ping_rate": 2.0, "ping_timeout": 3.0, "close_timeout": 2.0, "auto_pong": False},
    # the ping timeout is the only timer left (close timeout disabled by 0 - documented like None)
    {"poll": 1.0, "ping_rate": 2.0, "ping_timeout": 3.0, "close_timeout": 0},
]

MESSAGE_LIKE = {"text", "binary", "ping", "pong", "poll", "closing", "closed"}
TERMINAL = {"connect_fail", "disconnected"}


def step_to_script(name, open_message=False):
    """alphabet symbol -> list of script steps"""
    if name == "reply":
        return [["stream", [["reply", None]], "whole", 0.0]]
    if name == "reply_deflate":
        return [["stream", [["reply", deflate_reply()]], "whole", 0.0]]
    if name == "reply_403":
        return [["stream", [["reply", {"status": 403, "reason": "Forbidden", "headers": [["Content-Length", "0"]]}]],
                 "whole", 0.0]]
    if name == "reply_bad_accept":
        spec = httpref.canonical_spec()
        spec["headers"][2] = ["Sec-WebSocket-Accept", "{accept:other_key}"]
        return [["stream", [["reply", spec]], "whole", 0.0]]
    if name == "reply_17k":
        spec = dict(httpref.canonical_spec(), pad_to=17 * 1024)
        return [["stream", [["reply", spec]], "whole", 0.0]]
    frames = {
        "text": B(wire.TEXT, b"hello"),
        "text_frag": B(wire.TEXT, b"frag", fin=0),
        "cont_fin": B(wire.CONT, b"ment"),
        "ping": B(wire.PING, b"pi"),
        "pong": B(wire.PONG, b"po"),
        "close_1000": B(wire.CLOSE, struct.pack("!H", 1000) + b"bye"),
        "close_empty": B(wire.CLOSE, b""),
        "rsv_frame": B(wire.TEXT, b"x", rsv2=1),
        "bad_utf8": B(wire.TEXT, b"\xff\xfe"),
        "half_frame": B(wire.BINARY, b"0123456789")[:5],
        "binary_64k": B(wire.BINARY, b"k" * (65536 - 4)),
    }
    if name in frames:
        return [["stream", [["bytes", frames[name]]], "whole", 0.0]]
    if name == "short_silence":
        return [["pause", 1.0]]
    if name == "long_silence":
        return [["pause", 100.0]]
    if name == "eof":
        return [["eof", 0.0]]
    if name == "reset":
        return [["reset", 0.0]]
    if name in ("tls_error", "io_error", "tls_eof"):
        return [["reset", 0.0, name]]
    if name == "silence":
        return []
    if name == "chatter":
        # a continuation if a fragmented message is open, else a new binary message
        head = B(wire.CONT if open_message else wire.BINARY, b"", fin=0, form=64, declared_len=1 << 30)
        return [["stream", [["bytes", head]], "whole", 0.0]] + [["stream", [["bytes", b"c"]], "whole", 0.9]] * int(CHATTER_HORIZON / 0.9 + 2)
    raise ValueError(name)


def policy_reactions(policy):
    send = [["send_text", "app"], ["ping", "61"]]
    if policy == "passive":
        return []
    if policy == "close@connected":
        return [{"when": ["event", "connected", 0], "do": [["close"]]}]
    if policy == "close@ready":
        return [{"when": ["event", "ready", 0], "do": [["close", 1000, "done"]]}]
    if policy == "close@message":
        return [{"when": ["msg", 0], "do": [["close", 1001, "going"]]}]
    if policy == "close@poll":
        return [{"when": ["event", "poll", 0], "do": [["close"]]}]
    if policy == "close@closing":
        return [{"when": ["event", "closing", 0], "do": [["close", 1000, ""]]}]
    if policy == "slow@poll":
        return [{"when": ["event", "poll", 0], "do": [["sleep", 7.5]]}, {"when": ["event", "poll", 1], "do": [["sleep", 0.75]]}]
    if policy == "slow@message":
        return [{"when": ["msg", 0], "do": [["sleep", 7.5], ["send_text", "done at last"]]}]
    if policy == "send@every":
        return [{"when": ["every"], "do": send}]
    if policy == "send@closing":
        return [{"when": ["event", "closing", 0], "do": send}]
    if policy == "send@after_closing":
        return [{"when": ["event", "closing", 0], "do": []},
                {"when": ["event", "disconnected", 0], "do": send},
                {"when": ["event", "closed", 0], "do": send},
                {"when": ["event", "poll", None], "do": [["send_binary", "00"]]}]
    raise ValueError(policy)


def timer_must_end(tr, copts):
    """With a silent but connected server, must some timeout end the connection?  Timers run
    from Ready on: a ping timeout always applies, a close timeout once the client has written
    a Close frame (its own close() or the echo of the server's)."""
    names = tr.names()
    if "ready" not in names:
        return False
    if copts.get("ping_timeout"):
        return True
    ct = copts.get("close_timeout", 30.0)
    if ct:    # None and 0 both disable it
        for e in tr.sim.log:
            if e[0] in ("send", "send_fail") and not e[2].startswith(b"GET "):
                frames, _ = wire.decode_frames(e[2])
                if any(f.opcode == wire.CLOSE for f in frames):
                    # a Close frame was written, or at least attempted, at virtual time e[3]: the close timeout has to
                    # have fired only if it ran out (and was noticed: one poll interval plus the longest handler delay
                    # of the policies, 7.5 s) BEFORE the run was cut off
                    return e[3] + ct + 2 * copts.get("poll", 5.0) + 8.0 < tr.sim.now
    return False


def monitor(tr, silent_end=False, copts=None):
    """The grammar of C07 as a pure function of the trace; returns (signature, detail) or None."""
    names = tr.names()
    if tr.hang:
        return "hang", "%s; events so far: %s" % (tr.hang, names[-12:])
    if tr.escaped:
        return "escaped_exception", "%s; events %s" % (tr.escaped, names[-12:])
    if tr.horizon:
        if not silent_end:
            return "hang", "still running at the scenario horizon; events %s" % names[-12:]
        if timer_must_end(tr, copts or {}):
            return "hang", ("the server went silent without closing; a configured timeout (%s) should have ended the "
                            "connection, but iteration was still going at virtual time %s; last events %s" % (
                                {k: v for k, v in (copts or {}).items() if "timeout" in k} or "close_timeout=30 (default)",
                                tr.sim.now, names[-6:]))
        # legitimately still connected: only the prefix grammar can be checked
        if not names or names[0] != "connecting":
            return "grammar", "first event is %r" % (names[:1],)
        if any(n in TERMINAL for n in names):
            return "grammar", "terminal event but iteration continues: %s" % names[-6:]
        ready_at = names.index("ready") if "ready" in names else None
        for i, n in enumerate(names):
            if n in MESSAGE_LIKE and (ready_at is None or i < ready_at):
                return "grammar", "%s (event %d) before Ready" % (n, i)
        if names.count("ready") > 1 or names.count("connected") > 1:
            return "grammar", "Ready/Connected repeated"
        return None
    if not names or names[0] != "connecting":
        return "grammar", "first event is %r" % (names[:1],)
    if names.count("connecting") != 1:
        return "grammar", "Connecting yielded %d times" % names.count("connecting")
    if len(names) < 2:
        return "grammar", "nothing after Connecting"
    if names[1] == "connect_fail":
        if len(names) != 2:
            return "grammar", "events after ConnectFail: %s" % names[2:]
    elif names[1] != "connected":
        return "grammar", "second event is %r (expected ConnectFail or Connected)" % names[1]
    terminals = [i for i, n in enumerate(names) if n in TERMINAL]
    if len(terminals) != 1:
        return "grammar", "%d terminal events: %s" % (len(terminals), names)
    if terminals[0] != len(names) - 1:
        return "grammar", "terminal event is not last: %s" % names
    if names[1] == "connected" and names[-1] != "disconnected":
        return "grammar", "after Connected the terminal event must be Disconnected: %s" % names
    if names.count("connected") > 1:
        return "grammar", "Connected yielded twice"
    if names.count("ready") > 1:
        return "grammar", "Ready yielded %d times: %s" % (names.count("ready"), names)
    ready_at = names.index("ready") if "ready" in names else None
    if ready_at is not None and ready_at < 2:
        return "grammar", "Ready before Connected"
    for i, n in enumerate(names):
        if n in MESSAGE_LIKE and (ready_at is None or i < ready_at):
            return "grammar", "%s (event %d) before Ready: %s" % (n, i, names[:i + 2])
    if tr.ended == "stop" and tr.post_stop is not True:
        return "grammar", "a further next() after the terminal event did not raise StopIteration"
    return None


class C07(Prop):
    id = "C07"
    level = "exploration"
    rule = ("bounded exhaustive: every sequence of `depth` server steps over a 23-symbol alphabet (handshake variants, "
            "data/control/invalid frames, a frame exactly as long as the 64 KiB receive buffer, close, half frame, silences, EOF, reset, a fatal TLS error or routing failure that every "
            "later read repeats (wss://); connection refused as first step); the same through an HTTP proxy that answers 200, refuses, "
            "stalls, drops or resets during the CONNECT exchange (ws and wss targets) x 11 "
            "application policies (incl. handlers that take longer than the poll interval) x 2 option sets, each ending in EOF; depth 3 in quick, 4 in thorough. Hypothesis: scripts of up "
            "to 40 steps with per-event reaction plans and random timer settings. Oracle: a monitor for the event grammar "
            "(Connecting first; ConnectFail-and-stop or Connected; Ready once, after Connected; message/Poll/Closing/Closed only "
            "after Ready; exactly one terminal event, last; StopIteration afterwards; no exception escapes) plus termination "
            "(no hang once the transport has ended). Non-trivial = reaches Ready and contains a fault/invalid step or an "
            "application action.")
    assumptions = ("termination is judged on the virtual clock: the iterator must end within a bounded number of loop cycles "
                   "after EOF/reset has been delivered",)
    examples = {"quick": 2500, "thorough": 40000}

    def history_cases(self, depth):
        for first in ALPHABET + FIRST_ONLY:
            if first == "refused":
                for oi in range(len(OPTION_SETS)):
                    for pi in range(len(POLICIES)):
                        yield {"steps": ["refused"], "policy": pi, "opts": oi}
                continue
            if first in ENDERS:
                tails = [()]
            else:
                tails = itertools.product(ALPHABET, repeat=depth - 1)
            for tail in tails:
                steps = [first] + list(tail)
                # nothing can follow EOF/reset: keep only canonical representatives
                cut = next((i for i, s in enumerate(steps) if s in ENDERS), None)
                if cut is not None and cut != len(steps) - 1:
                    continue
                for oi in range(len(OPTION_SETS)):
                    for pi in range(len(POLICIES)):
                        yield {"steps": steps, "policy": pi, "opts": oi}

    def fault_cases(self):
        """Histories with ONE write that fails without breaking the transport (the k-th sendall
        after the request times out or raises), ending with EOF or with a silent server."""
        for first in ("reply", "reply_deflate"):
            for mid in ALPHABET[5:17]:
                for end in ("silence", "eof", "chatter"):
                    for oi in range(len(OPTION_SETS)):
                        for pi in range(len(POLICIES)):
                            for k in (1, 2, 3):
                                for kind in ("timeout", "exc"):
                                    yield {"steps": [first, mid, end], "policy": pi, "opts": oi, "send_fault": [k, kind]}

    def proxy_cases(self):
        """Histories of connections made THROUGH AN HTTP PROXY (ws and wss targets): the proxy refuses, stalls, drops
        or resets during the CONNECT exchange, or brings the tunnel up and a 3-step history follows."""
        for secure in (False, True):
            for oi in range(len(OPTION_SETS)):
                for pi in range(len(POLICIES)):
                    for kind in PROXY_KINDS[1:]:
                        yield {"steps": [], "policy": pi, "opts": oi, "proxy": kind, "tls": secure}
                    for first in ("reply", "reply_deflate", "reply_403", "eof", "half_frame"):
                        if first in ("reply", "reply_deflate"):
                            for mid in ALPHABET[5:17]:
                                for end in ("eof", "silence", "reset", "chatter"):
                                    yield {"steps": [first, mid, end], "policy": pi, "opts": oi, "proxy": "ok", "tls": secure}
                        else:
                            yield {"steps": [first] if first == "eof" else [first, "eof"], "policy": pi, "opts": oi,
                                   "proxy": "ok", "tls": secure}

    def enumerations(self, tier):
        depth = 3 if tier == "quick" else 4
        return [Enumeration("histories_depth_%d" % depth, lambda: self.history_cases(depth), exhaustive=True),
                Enumeration("histories_with_one_failed_write", self.fault_cases, exhaustive=True),
                Enumeration("histories_through_a_proxy", self.proxy_cases, exhaustive=True),
                with_wsopts([{"steps": steps, "policy": pi, "opts": 0, "proxy": proxy, "tls": tls}
                             for steps in (["reply", "text", "eof"], ["reply_deflate", "ping", "silence"], ["reply_403", "eof"])
                             for pi in (0, 2) for proxy, tls in ((None, False), ("ok", False), ("ok", True))])]

    # ---- real descriptors, platform selectors ---------------------------------------
    def extra(self, tier, seed, acc):
        """The simulated transport replaces the selector's wait; the platform selectors themselves (PollSelector,
        SelectSelector) are exercised here on a real socketpair: the application's handler closes the session at
        Ready / Poll / Text / Ping and keeps iterating - the iteration must end with one terminal event."""
        import json as _json
        import os as _os
        import subprocess as _sp
        import sys as _sys
        from harness import boot
        from harness.runner import case_hash
        env = dict(_os.environ, VERIF_REPO=boot.REPO, PYTHONHASHSEED="0")
        script = _os.path.join(boot.VERIF, "harness", "realnet.py")
        try:
            r = _sp.run([_sys.executable, script, "c07"], capture_output=True, text=True, env=env, timeout=300)
        except _sp.TimeoutExpired:
            return {"real_descriptors": "inconclusive: runner timeout"}
        if r.returncode != 0:
            raise boot.HarnessError("realnet.py c07 failed: " + r.stderr[-800:])
        runs = _json.loads(r.stdout.strip().splitlines()[-1])
        for run in runs:
            case = {"real": True, "selector": run["selector"], "scenario": run["scenario"]}
            acc.evaluations += 1
            acc.nontrivial.add(case_hash(case))
            key = "real:%s" % run["selector"]
            acc.labels[key] = acc.labels.get(key, 0) + 1
            if run.get("violation"):
                acc.failure = ("no_termination_on_real_descriptor", "%s / %s: %s" % (run["selector"], run["scenario"],
                                                                                   run["violation"]), case)
                break
        acc.stages["real_descriptors"] = {"evaluations": len(runs)}
        return {"real_descriptor_runs": runs}

    def strategy(self, tier):
        action = st.one_of(
            st.just(["send_text", "x€"]), st.just(["send_binary", "00ff"]), st.just(["ping", "70"]),
            st.just(["pong", "71"]), st.just(["close"]), st.just(["close", 1000, "bye"]),
            st.just(["send_json", {"a": 1}]))
        rule = st.fixed_dictionaries({
            "when": st.one_of(st.tuples(st.just("index"), st.integers(0, 30)).map(list),
                              st.tuples(st.just("event"), st.sampled_from(
                                  ["connecting", "connected", "ready", "poll", "text", "ping", "closing", "closed",
                                   "protocol_error", "disconnected", "rejected", "unresponsive"]),
                                  st.one_of(st.none(), st.integers(0, 3))).map(list),
                              st.just(["every"])),
            "do": st.lists(action, min_size=1, max_size=3),
        })
        grid = st.sampled_from([0.25, 0.5, 1.0, 2.0, 5.0, 30.0])
        opts = st.fixed_dictionaries({}, optional={
            "poll": grid, "ping_rate": st.one_of(st.just(0), grid),
            "ping_timeout": st.one_of(st.none(), grid), "close_timeout": st.one_of(st.none(), st.just(0), grid),
            "auto_pong": st.booleans()})
        first = st.sampled_from(["reply", "reply", "reply", "reply_deflate", "reply_403", "reply_bad_accept",
                                 "reply_17k", "text", "eof", "half_frame", "long_silence"])
        rest = st.lists(st.sampled_from(ALPHABET[5:17] + ["text", "ping", "short_silence"]), max_size=39)
        return st.fixed_dictionaries({
            "first": first, "rest": rest,
            "end": st.sampled_from(["eof", "eof", "reset", "silence", "tls_error", "tls_eof", "io_error", "chatter"]),
            "tls": gen.weighted([(3, st.just(False)), (1, st.just(True))]),
            "proxy": gen.weighted([(5, st.none()), (1, st.sampled_from(PROXY_KINDS))]),
            # an earlier connection in this process (same WebSocket object or another) and how it ended
            "prelude": gen.prelude(),
            # a second live connection in the same process (interleaved with this one, or blocked in a send)
            "companion": gen.companion(6),
            # constructor arguments that only shape the upgrade request
            "wsopts_noise": gen.wsopts_noise(),
            "reactions": st.lists(rule, max_size=4), "copts": opts,
            "addrs": st.lists(st.sampled_from(["ok", "refused", "timeout", "sockerr"]), min_size=1, max_size=3),
            # "every fault": one non-fatal write fault (the k-th sendall times out / raises)
            "send_fault": st.one_of(st.none(), st.none(), st.tuples(st.integers(0, 6), st.sampled_from(
                ["timeout", "exc", "reset"])).map(list)),
        })

    def run_case(self, case):
        if "policy" in case:
            steps = case["steps"]
            reactions = policy_reactions(POLICIES[case["policy"]])
            copts = OPTION_SETS[case["opts"]]
            addrs = None
            labels = {"policy:" + POLICIES[case["policy"]], "opts:%d" % case["opts"]}
        else:
            steps = [case["first"]] + list(case["rest"]) + [case["end"]]
            reactions = case["reactions"]
            copts = case["copts"]
            addrs = [{"connect": a} for a in case["addrs"]]
            labels = {"generated"}
        script = [["wait_request"]]
        att = {}
        ws_opts = None
        proxy = case.get("proxy")
        tunnel = True
        if proxy:
            psteps, tunnel = proxy_script(proxy)
            script += psteps
            ws_opts = {"proxies": {"http": "http://proxy.test:3128", "https": "http://proxy.test:3128"}}
            labels.add("proxy:" + proxy)
        if "policy" in case and case.get("send_fault"):
            att["faults"] = {"send": {str(case["send_fault"][0]): case["send_fault"][1]}}
            labels.add("send_fault")
        if steps == ["refused"]:
            att["addrs"] = [{"connect": "refused"}]
        elif not tunnel:
            pass          # the proxy exchange fails: nothing of the history is ever reached
        else:
            open_message = False
            for s in steps:
                script.extend(step_to_script(s, open_message))
                open_message = {"text_frag": True, "cont_fin": False}.get(s, open_message)
            if steps[-1] not in ENDERS + ("tls_eof",):
                script.append(["eof", 0.0])
            if addrs:
                att["addrs"] = addrs
            if case.get("send_fault"):
                att["faults"] = {"send": {str(case["send_fault"][0]): case["send_fault"][1]}}
                labels.add("send_fault")
        silent_end = bool(steps) and steps[-1] in ("silence", "chatter") and tunnel
        chatter = bool(steps) and steps[-1] == "chatter" 
        tls = bool(case.get("tls")) or (bool(steps) and steps[-1].startswith("tls_"))
        if tls:
            labels.add("wss")
        scn = build.scenario(script, connect_opts=copts, reactions=reactions, attempt_extra=att, ws_opts=ws_opts,
                             horizon=(CHATTER_HORIZON if chatter else 600.0) if silent_end else None, **({"url": "wss://example.test/"} if tls else {}))
        tr = simnet.run_scenario(scn)
        names = tr.names()
        faulty = bool(set(steps) & {"rsv_frame", "bad_utf8", "half_frame", "reset", "reply_17k", "tls_error", "tls_eof",
                                    "io_error"})
        acted = bool(tr.actions)
        nontrivial = "ready" in names and (faulty or acted)
        for n in set(names):
            labels.add("ev:" + n)
        if silent_end:
            labels.add("ends_in_silence")
        bad = monitor(tr, silent_end, copts)
        if bad:
            return failed(bad[0], bad[1] + " | steps=%s" % steps, labels, nontrivial)
        return held(labels, nontrivial)


PROP = C07()
