"""C04 - protocol violations are detected, reported once, and fail the connection."""
import struct

from hypothesis import strategies as st

from harness import build, gen, simnet, wire, refmodel, httpref, deflateref
from harness.runner import Prop, Enumeration, held, failed, after_every_prelude, with_noise, with_companion, with_debug_log
from props.c01 import effective_seg, compare_events

VIOL_SENTINEL = b"<<VIOLATING-7f3a>>"
SUFFIX_SENTINEL = b"<<SUFFIX-91c2>>"
# what the violating frame carries may look like a template to whatever builds the error's description
VIOL_PAYLOADS = [VIOL_SENTINEL, b"{error} {0} {} " + VIOL_SENTINEL, b'{"error": 1}' + VIOL_SENTINEL, b"%s %(x)s %d " + VIOL_SENTINEL,
                 b"{" + VIOL_SENTINEL, VIOL_SENTINEL + b"}"]

CLASSES = ["reserved_opcode", "reserved_bits", "fragmented_control", "control_too_long",
           "masked_frame", "nothing_to_continue", "expected_continuation", "length_2^63",
           "close_1_byte", "close_reserved_code", "close_bad_utf8", "text_bad_utf8",
           "text_bad_utf8_later_fragment", "text_bad_utf8_nonfinal_fragment"]

BAD_UTF8 = [b"\xc0\xaf", b"\xed\xa0\x80", b"\xf4\x90\x80\x80", b"\xff", b"\x80", b"\xe2\x82",
            b"abc\xc3", b"\xf0\x8f\xbf\xbf", b"ok\xfeok"]
BAD_CODES = [0, 1, 999, 1004, 1005, 1006, 1015, 1016, 1100, 2000, 2999]


def violating_frames(v, deflate):
    """bytes of the violating frame(s) for a violation spec (JSON dict)."""
    B = wire.build_frame
    cls = v["class"]
    a = v.get("a", 0)
    b = v.get("b", 0)
    s = VIOL_PAYLOADS[v.get("sent", 0) % len(VIOL_PAYLOADS)]
    if cls == "reserved_opcode":
        op = [3, 4, 5, 6, 7, 0xB, 0xC, 0xD, 0xE, 0xF][a % 10]
        return B(op, s, fin=1 if op >= 8 else (b & 1))
    if cls == "reserved_bits":
        combos = [(0, 1, 0), (0, 0, 1), (0, 1, 1)] if deflate else \
            [(1, 0, 0), (0, 1, 0), (0, 0, 1), (1, 1, 0), (1, 0, 1), (0, 1, 1), (1, 1, 1)]
        r1, r2, r3 = combos[a % len(combos)]
        op = [wire.TEXT, wire.BINARY, wire.PING, wire.PONG, wire.CLOSE][b % 5]
        if v.get("open") and op in (wire.TEXT, wire.BINARY):
            op = wire.CONT
        payload = s if op != wire.CLOSE else struct.pack("!H", 1000) + s
        return B(op, payload, rsv1=r1, rsv2=r2, rsv3=r3)
    if cls == "fragmented_control":
        op = [wire.PING, wire.PONG, wire.CLOSE][a % 3]
        payload = s if op != wire.CLOSE else struct.pack("!H", 1000) + s
        return B(op, payload, fin=0)
    if cls == "control_too_long":
        op = [wire.PING, wire.PONG, wire.CLOSE][a % 3]
        n = [126, 127, 128, 200, 1000, 65535, 65536][b % 7]
        form = 64 if n > 65535 or v.get("wide") else 16
        body = s + b"x" * (n - len(s))
        if op == wire.CLOSE:
            body = struct.pack("!H", 1000) + body[:-2]
        return B(op, body, form=form)
    if cls == "masked_frame":
        op = [wire.TEXT, wire.BINARY, wire.PING, wire.PONG, wire.CLOSE][a % 5]
        if v.get("open") and op in (wire.TEXT, wire.BINARY):
            op = wire.CONT
        payload = s if op != wire.CLOSE else struct.pack("!H", 1000) + s
        key = [b"\x01\x02\x03\x04", b"\x00\x00\x00\x00", b"\xff\xfe\xfd\xfc"][b % 3]
        # a masked data frame may also be a NON-final fragment (the suffix then completes it)
        fin = 0 if (v.get("wide") and op < 8) else 1
        return B(op, payload, fin=fin, mask=key)
    if cls == "nothing_to_continue":
        return B(wire.CONT, s, fin=a & 1)
    if cls == "expected_continuation":
        return B([wire.TEXT, wire.BINARY][a & 1], s, fin=b & 1)
    if cls == "length_2^63":
        n = [1 << 63, (1 << 63) + 1, (1 << 64) - 1, 0xFFFFFFFF00000000][a % 4]
        op = [wire.BINARY, wire.TEXT][b & 1]
        if v.get("open"):
            op = wire.CONT
        return B(op, s, form=64, declared_len=n)
    if cls == "close_1_byte":
        return B(wire.CLOSE, bytes([[3, 0, 255][a % 3]]))
    if cls == "close_reserved_code":
        code = BAD_CODES[a % len(BAD_CODES)]
        return B(wire.CLOSE, struct.pack("!H", code) + s)
    if cls == "close_bad_utf8":
        return B(wire.CLOSE, struct.pack("!H", 1000) + s + BAD_UTF8[a % len(BAD_UTF8)])
    if cls == "text_bad_utf8":
        body = s + BAD_UTF8[a % len(BAD_UTF8)] + (b"tail" if b & 1 else b"")
        if v.get("open_text"):
            return B(wire.CONT, body)
        return B(wire.TEXT, body)
    if cls == "text_bad_utf8_later_fragment":
        bad = BAD_UTF8[a % len(BAD_UTF8)]
        return B(wire.TEXT, s, fin=0) + B(wire.CONT, b"mid", fin=0) + B(wire.CONT, bad + b"z")
    if cls == "text_bad_utf8_nonfinal_fragment":
        # the offending bytes sit in a NON-final fragment, optionally after a control frame
        # interleaved in the message; the message is never finished (the suffix follows)
        bad = BAD_UTF8[a % len(BAD_UTF8)]
        ctrl = [b"", B(wire.PING, b"between"), B(wire.PONG, b"between")][b % 3]
        return B(wire.TEXT, b"first-", fin=0) + ctrl + B(wire.CONT, s + bad + b"x", fin=0)
    raise ValueError(cls)


CLOSE_WRITE_FAULTS = ["reset", "pipe", "timeout", "oserror", "exc", "eintr", "eagain"]
NEEDS_OPEN = {"expected_continuation"}
NEEDS_CLOSED = {"nothing_to_continue", "text_bad_utf8_later_fragment", "text_bad_utf8_nonfinal_fragment"}


def deflate_reply():
    return httpref.canonical_spec(extensions=["permessage-deflate"])


def extension_context(deflate):
    """deflate: 0/False = not offered, 1/True = offered and accepted, 2 = offered by the client but
    declined by the server (no Sec-WebSocket-Extensions in the reply: RSV1 stays reserved).
    Returns (negotiated, reply spec, ws_opts, refmodel configuration)."""
    d = int(deflate)
    negotiated = d == 1
    return (negotiated, deflate_reply() if negotiated else None, {"compress": True} if d else None,
            {"server_nct": False} if negotiated else None)


def check_violation_trace(tr, model, labels, nontrivial, expect_messages=True):
    """The five clauses of C04 for one trace, given the reference reading."""
    names = tr.names()
    if tr.hang:
        return failed("hang", tr.hang, labels, nontrivial)
    if tr.escaped:
        return failed("escaped_exception", tr.escaped, labels, nontrivial)
    pe = [i for i, n in enumerate(names) if n == "protocol_error"]
    msgs = [(i, e) for i, e in enumerate(tr.events) if e["name"] in simnet.MESSAGE_EVENTS]
    if model.violation is None:
        return None
    # (3) nothing of the violating frame or of the suffix may be delivered: every message
    # event beyond those the reference reading yields for the prefix is such content
    # (sentinels only serve to name the failure - generated prefixes may contain them)
    for i, e in msgs[len(model.events):]:
        raw = b""
        for k in ("text", "data", "reason"):
            v = e.get(k)
            if v is not None:
                raw += v.encode("utf-8", "replace") if isinstance(v, str) else bytes(v)
        if SUFFIX_SENTINEL in raw:
            sig, what = "delivered_after_violation", "carries bytes that follow the violating frame"
        elif VIOL_SENTINEL in raw:
            sig, what = "delivered_violating_content", "carries the violating frame's payload"
        else:
            sig, what = "delivered_violating_content", "is not a message that completed before the violation"
        return failed(sig, "event %d (%s) %s (class %s); events=%s" % (i, e["name"], what, model.violation, names),
                      labels, nontrivial)
    # (2) exactly one ProtocolError
    if len(pe) != 1:
        return failed("protocol_error_count",
                      "%d ProtocolError events for violation %s; events=%s; last=%r" % (
                          len(pe), model.violation, names, tr.events[-1] if tr.events else None),
                      labels, nontrivial)
    pei = pe[0]
    # (1) messages before the violation
    before = [e for i, e in msgs if i < pei]
    after = [e for i, e in msgs if i > pei]
    if after:
        return failed("message_after_protocol_error",
                      "message events after the ProtocolError: %s" % [e["name"] for e in after],
                      labels, nontrivial)
    if expect_messages:
        why = compare_events(before, model.events)
        if why:
            return failed("prefix_mismatch", why + " | violation=%s events=%s" % (model.violation, names),
                          labels, nontrivial)
    # (4) ends with a non-graceful Disconnected
    last = tr.events[-1]
    if last["name"] != "disconnected" or last.get("graceful") is not False:
        return failed("not_failed", "connection did not end with a non-graceful Disconnected: %r" % (last,),
                      labels, nontrivial)
    # (5) at most one frame written after the ProtocolError was yielded, and only a Close
    out = b"".join(e[2] for e in tr.sim.log if e[0] == "send" and e[5] >= pei)
    frames, problems = wire.decode_client_frames(out)
    if problems:
        return failed("garbage_after_violation", "; ".join(problems), labels, nontrivial)
    if len(frames) > 1 or any(f.opcode != wire.CLOSE for f in frames):
        return failed("frames_after_violation",
                      "client wrote %s after reporting the violation" % [repr(f) for f in frames],
                      labels, nontrivial)
    return None


class C04(Prop):
    id = "C04"
    level = "exploration"
    rule = ("(a) exhaustive: every one of the 65536 two-byte frame headers, completed with the extended length / "
            "masking key / payload it announces, in 6 contexts (permessage-deflate not offered / negotiated / offered by the client but declined by the "
            "server x at message start or inside an unfinished text message), each followed by a sentinel frame; lomond's verdict and "
            "delivered events vs the reference reading of RFC 6455 (harness/refmodel.py). (b) Hypothesis: conforming "
            "prefix + optional unfinished message + one violating frame of a drawn class + conforming suffix, any read "
            "segmentation, client optionally already closing. Non-trivial = a message event precedes the violation and "
            "the violating frame is not the first thing in its read (or, for (a), the header is a violation / an "
            "accepted frame inside a message context). Distinct = distinct canonical JSON of the case.")
    assumptions = ("reference model harness/refmodel.py is a correct reading of RFC 6455 5-7 (self-tested per class)",
                   "violating frames are delivered complete (except lengths >= 2^63)")
    examples = {"quick": 3000, "thorough": 80000}

    # ---- generated part -----------------------------------------------------------
    def strategy(self, tier):
        viol = st.fixed_dictionaries({
            "class": st.sampled_from(CLASSES),
            "a": st.integers(0, 20), "b": st.integers(0, 20), "wide": st.booleans(),
            "sent": gen.weighted([(2, st.just(0)), (1, st.integers(0, len(VIOL_PAYLOADS) - 1))]),
        })
        # "cont": a final continuation first - it completes a fragment that was wrongly accepted
        suffix = st.lists(st.sampled_from(["cont", "binary", "text", "ping", "close"]), max_size=3)
        return st.fixed_dictionaries({
            "prefix": st.lists(gen.message(big=False), max_size=5),
            "open": st.one_of(st.none(), st.sampled_from(["text", "binary"])),
            "viol": viol,
            "suffix": suffix,
            "seg": gen.segmentation(),
            # an earlier connection in this process (same WebSocket object or another) and how it ended
            "prelude": gen.prelude(),
            # a second live connection in the same process (interleaved with this one, or blocked in a send)
            "companion": gen.companion(),
            # calls with unsendable arguments that the application tries (and whose error it catches) on the way
            "noise_calls": gen.noise_calls(),
            # the application has switched on DEBUG logging for the library
            "debug_log": gen.debug_log(),
            # connect() options that must not matter here
            "copts_noise": gen.copts_noise(("poll", "ping_rate", "ping_timeout", "close_timeout")),
            "deflate": st.sampled_from([0, 0, 1, 1, 2]),
            "client_closing": gen.weighted([(5, st.just(False)), (1, st.just(True))]),
            # the write of the client's own Close (on meeting the violation) fails
            "close_write_fault": gen.weighted([(4, st.none()), (1, st.sampled_from(CLOSE_WRITE_FAULTS))]),
        })

    def run_sched(self, case):
        if not hasattr(self, "_sched"):
            self.enumerations("quick")
        inner = dict(case)
        inner.pop("sched")
        return self._sched.run_case(inner)

    def build_stream(self, case):
        v = dict(case["viol"])
        cls = v["class"]
        deflate = int(case["deflate"]) == 1
        open_kind = case["open"]
        if cls in NEEDS_OPEN and not open_kind:
            open_kind = "text"
        if cls in NEEDS_CLOSED:
            open_kind = None
        built = build.build_session(case["prefix"])
        data = bytearray(built.data)
        if open_kind:
            data += wire.build_frame(wire.TEXT if open_kind == "text" else wire.BINARY, b"open-", fin=0)
            v["open"] = True
            v["open_text"] = open_kind == "text"
        viol_at = len(data)
        data += violating_frames(v, deflate)
        self._viol_end = len(data)
        for k in case["suffix"]:
            if k == "cont":
                data += wire.build_frame(wire.CONT, SUFFIX_SENTINEL)
            elif k == "binary":
                data += wire.build_frame(wire.BINARY, SUFFIX_SENTINEL)
            elif k == "text":
                data += wire.build_frame(wire.TEXT, SUFFIX_SENTINEL)
            elif k == "ping":
                data += wire.build_frame(wire.PING, SUFFIX_SENTINEL)
            else:
                data += wire.build_frame(wire.CLOSE, struct.pack("!H", 1000) + SUFFIX_SENTINEL)
        return bytes(data), viol_at, built

    def run_after_close(self, case):
        """A violating frame that FOLLOWS a valid server Close.  The property does not fix whether such a frame still has
        to be reported (a client may stop reading at the peer's Close), so only what holds under either reading is
        demanded: nothing of the violating frame or of what follows it is delivered, at most one ProtocolError is
        yielded, the iterator ends - and the verdict is the same however the stream is cut into reads."""
        v = dict(case["viol"])
        deflate_on = int(case["deflate"]) == 1
        cls = v["class"]
        head = wire.build_frame(wire.TEXT, b"before the close")
        close = wire.build_frame(wire.CLOSE, struct.pack("!H", 1000) + b"bye")
        if cls in NEEDS_OPEN:
            # the unfinished message is opened before the Close (control frames may be interleaved)
            head += wire.build_frame(wire.BINARY, b"open-", fin=0)
            v["open"] = True
        data = head + close + violating_frames(v, deflate_on) + wire.build_frame(wire.TEXT, SUFFIX_SENTINEL)
        deflate, reply, ws_opts, mcfg = extension_context(case["deflate"])
        reply_len = len(httpref.build_reply(reply, b""))
        cut = reply_len + len(head) + len(close)
        reactions = []
        if case.get("client_closing"):
            reactions.append({"when": ["event", "ready", 0], "do": [["close", 1000, "bye"]]})
        labels = {"after_server_close", "class:" + cls, ["plain", "deflate", "deflate_offered_declined"][int(case["deflate"])]}
        verdicts = []
        for seg in ("whole", ["cuts", [cut]], ["cuts", [cut - 1]], ["cuts", [cut + 1]], ["uniform", 7], "bytewise"):
            scn = build.scenario(
                [["wait_request"], ["stream", [["reply", reply], ["bytes", data]], seg, 0.0], ["eof", 0.0]],
                ws_opts=ws_opts, reactions=reactions)
            tr = simnet.run_scenario(scn)
            names = tr.names()
            if tr.hang:
                return failed("hang", tr.hang, labels, True)
            if tr.escaped:
                return failed("escaped_exception", tr.escaped, labels, True)
            if names[-1:] != ["disconnected"]:
                return failed("no_terminal_event", "events=%s" % names, labels, True)
            for e in tr.events:
                if e["name"] not in simnet.MESSAGE_EVENTS:
                    continue
                raw = b""
                for k in ("text", "data", "reason"):
                    x = e.get(k)
                    if x is not None:
                        raw += x.encode("utf-8", "replace") if isinstance(x, str) else bytes(x)
                if SUFFIX_SENTINEL in raw or VIOL_SENTINEL in raw:
                    return failed("delivered_after_violation", "seg=%s: event %s carries content of / after the violating "
                                  "frame that follows the server's Close; events=%s" % (seg, e["name"], names), labels, True)
            npe = names.count("protocol_error")
            if npe > 1:
                return failed("protocol_error_count", "seg=%s: %d ProtocolError events; events=%s" % (seg, npe, names),
                              labels, True)
            verdicts.append((seg, [n for n in names if n != "poll"]))
        if any(vd[1] != verdicts[0][1] for vd in verdicts):
            return failed("verdict_depends_on_segmentation",
                          "a violating frame after the server's Close is reported under one segmentation and not under "
                          "another: %s" % verdicts, labels, True)
        labels.add("after_close:" + ("reported" if "protocol_error" in verdicts[0][1] else "ignored"))
        return held(labels, True)

    def run_case(self, case):
        if case.get("sched"):
            return self.run_sched(case)
        if case.get("after_close"):
            return self.run_after_close(case)
        if "hdr" in case:
            return self.run_header(case)
        if "stream" in case:
            return self.run_stream(case)
        if case["viol"]["class"] == "text_bad_utf8_nonfinal_fragment" and int(case["deflate"]) == 1:
            # with the extension negotiated lomond reads text unvalidated until the message ends
            # (not demanded, see DESIGN.md C05): this class is exercised on plain connections
            case = dict(case, deflate=0)
        data, viol_at, built = self.build_stream(case)
        deflate, reply, ws_opts, mcfg = extension_context(case["deflate"])
        model = refmodel.interpret(data, mcfg)
        reply_len = len(httpref.build_reply(reply, b""))
        seg = effective_seg(case["seg"], reply_len + len(data))
        reactions = []
        if case.get("client_closing"):
            reactions.append({"when": ["event", "ready", 0], "do": [["close", 1000, "bye"]]})
        scn = build.scenario(
            [["wait_request"], ["stream", [["reply", reply], ["bytes", data]], seg, 0.0], ["eof", 0.0]],
            ws_opts=ws_opts, reactions=reactions)
        tr = simnet.run_scenario(scn)
        labels = {"class:" + str(model.violation), ["plain", "deflate", "deflate_offered_declined"][int(case["deflate"])]}
        if case["open"]:
            labels.add("inside_unfinished_message")
        if case.get("client_closing"):
            labels.add("client_closing")
        labels.add("seg:" + (seg if isinstance(seg, str) else seg[0]))
        starts = set()
        pos = 0
        for chunk in simnet.segment(b"\0" * (reply_len + len(data)), seg):
            starts.add(pos)
            pos += len(chunk)
        first_in_read = (reply_len + viol_at) in starts
        nontrivial = bool(model.events) and not first_in_read
        if model.violation is None or not (viol_at <= model.violation_at < self._viol_end):
            # the builder and the reference model must agree on where the violation is
            return failed("harness_model_disagrees",
                          "model says %r at %r, builder put %s at %d" % (
                              model.violation, model.violation_at, case["viol"]["class"], viol_at),
                          labels, nontrivial)
        res = check_violation_trace(tr, model, labels, nontrivial)
        if res is not None:
            return res
        if case.get("close_write_fault"):
            # the same case once more, with the write of whatever the client sends on meeting the violation (its Close)
            # failing: the violation is reported and the connection failed all the same
            pei = tr.names().index("protocol_error")
            sends = [e for e in tr.sim.log if e[0] == "send"]
            late = [i for i, e in enumerate(sends) if e[5] >= pei]
            if late:
                labels.add("close_write_fails:" + case["close_write_fault"])
                scn2 = build.scenario(
                    [["wait_request"], ["stream", [["reply", reply], ["bytes", data]], seg, 0.0], ["eof", 0.0]],
                    ws_opts=ws_opts, reactions=reactions,
                    attempt_extra={"faults": {"send": {str(late[0]): case["close_write_fault"]}}})
                tr2 = simnet.run_scenario(scn2)
                res = check_violation_trace(tr2, model, labels, nontrivial)
                if res is not None:
                    res.detail = "with the client's Close write failing (%s): %s" % (case["close_write_fault"], res.detail)
                    return res
        # auto-pongs: one per delivered Ping, none for pings after the violation
        if not case.get("client_closing"):
            pings = [e for e in model.events if e["name"] == "ping"]
            frames, _ = wire.decode_frames(wire.split_http(tr.sim.client_bytes())[1])
            pongs = [f for f in frames if f.opcode == wire.PONG]
            if len(pongs) != len(pings):
                return failed("pong_for_undelivered_ping",
                              "%d pongs written for %d pings that precede the violation" % (len(pongs), len(pings)),
                              labels, nontrivial)
        return held(labels, nontrivial)

    # ---- arbitrary frame streams (fuzzing tier) ---------------------------------------
    def run_stream(self, case):
        """case = {"stream": hex of the bytes after the handshake reply, "deflate": bool, "seg": seg}:
        lomond's verdict and events against the reference reading, for any byte string."""
        data = bytes.fromhex(case["stream"])
        deflate, reply, ws_opts, mcfg = extension_context(case.get("deflate") or 0)
        model = refmodel.interpret(data, mcfg)
        scn = build.scenario(
            [["wait_request"], ["stream", [["reply", reply], ["bytes", data]], case.get("seg", "whole"), 0.0], ["eof", 0.0]],
            ws_opts=ws_opts)
        tr = simnet.run_scenario(scn)
        labels = {"stream:" + (model.violation or ("unspecified" if model.unspecified else
                                                   ("incomplete" if model.incomplete else "accepted")))}
        nontrivial = len(model.frames) >= 2
        names = tr.names()
        if tr.hang:
            return failed("hang", tr.hang, labels, nontrivial)
        if tr.escaped:
            return failed("escaped_exception", tr.escaped, labels, nontrivial)
        if names[-1:] != ["disconnected"]:
            return failed("no_terminal_event", "events=%s" % names, labels, nontrivial)
        if model.unspecified:
            return held(labels, nontrivial)
        if model.violation:
            res = check_violation_trace(tr, model, labels, nontrivial)
            return res if res is not None else held(labels, nontrivial)
        if model.closed_by_server and "closing" in names:
            names_cmp = names[:names.index("closing") + 1]
        else:
            names_cmp = names
        got = [e for e in tr.events[:len(names_cmp)] if e["name"] in simnet.MESSAGE_EVENTS]
        why = compare_events(got, model.events)
        if why:
            return failed("delivery_mismatch", why + " | events=%s" % names, labels, nontrivial)
        if "protocol_error" in names_cmp and not (model.incomplete and model.early):
            return failed("false_protocol_error", "ProtocolError %r for a stream the reference reading accepts; events %s" % (
                [e for e in tr.events if e["name"] == "protocol_error"][0].get("error"), names), labels, nontrivial)
        return held(labels, nontrivial)

    # ---- exhaustive header enumeration -------------------------------------------
    EXT16 = [0, 125, 126, 1000, 65535]
    EXT64 = [0, 125, 126, 65535, 65536, (1 << 63) - 1, 1 << 63, (1 << 64) - 1]

    def header_cases(self):
        for deflate in (0, 1, 2):
            for inside in (0, 1):
                for b0 in range(256):
                    for b1 in range(256):
                        ln = b1 & 127
                        if ln == 126:
                            exts = self.EXT16
                        elif ln == 127:
                            exts = self.EXT64
                        else:
                            exts = [None]
                        for ext in exts:
                            yield {"hdr": [b0, b1], "ext": ext, "ctx": [deflate, inside]}

    def enumerations(self, tier):
        text = {"kind": "text", "payload": ["str", "ok \u20ac"], "forms": [0]}
        battery = [{"prefix": [text], "open": None, "viol": {"class": c, "a": 0, "b": 0, "wide": False}, "suffix": ["text"],
                    "seg": "whole", "deflate": 0, "client_closing": False}
                   for c in ("reserved_bits", "close_bad_utf8", "text_bad_utf8", "control_too_long", "expected_continuation")]
        def templates():
            # every violation class x every variant of each x payloads that look like format templates
            for c in CLASSES:
                for a in range(11):
                    for sent in range(1, len(VIOL_PAYLOADS)):
                        yield {"prefix": [text], "open": "text" if c in NEEDS_OPEN else None,
                               "viol": {"class": c, "a": a, "b": a // 3, "wide": False, "sent": sent},
                               "suffix": ["text"], "seg": "whole", "deflate": 0, "client_closing": False}
        # "at most one Close frame" also while ANOTHER thread closes or sends: a scheduled stage (the deterministic
        # scheduler of C11/C12; every thread order x every single preemption) in which the event loop meets the violation
        from props import c12
        from props.c11 import C11

        class _Sched(C11):
            id = "C04"

            def scenarios(self_inner):
                return {n: c12.SCENARIOS[n] for n in ("close_vs_protocol_error", "close_and_send_vs_bad_utf8")}

            def judge(self_inner, scn, out):
                return c12.judge(scn, out)

            def bound2(self_inner):
                return []

            def first_use(self_inner):
                return []
        self._sched = _Sched()
        inner = self._sched.enumerations(tier)[0]

        def scheduled():
            for c in inner.make():
                yield dict(c, sched=True)
        def close_write_fails():
            for c in CLASSES:
                for f in CLOSE_WRITE_FAULTS:
                    for closing in (False, True):
                        yield {"prefix": [text], "open": "text" if c in NEEDS_OPEN else None,
                               "viol": {"class": c, "a": 0, "b": 0, "wide": False}, "suffix": ["text"], "seg": "whole",
                               "deflate": 0, "client_closing": closing, "close_write_fault": f}

        def after_close():
            for c in CLASSES:
                if c in ("text_bad_utf8_later_fragment", "text_bad_utf8_nonfinal_fragment"):
                    continue
                for a in range(4):
                    for d in (0, 1):
                        for closing in (False, True):
                            yield {"after_close": True, "viol": {"class": c, "a": a, "b": a, "wide": False}, "deflate": d,
                                   "client_closing": closing}
        return [Enumeration("all_65536_headers_x6_contexts", self.header_cases, exhaustive=True),
                Enumeration("violation_after_a_valid_server_close_same_verdict_under_every_cut", after_close, exhaustive=True),
                Enumeration("violation_class_x_failing_close_write", close_write_fails, exhaustive=True),
                Enumeration("violation_met_while_another_thread_closes_or_sends", scheduled, exhaustive=True),
                Enumeration("violating_payload_looks_like_a_template", templates, exhaustive=True),
                after_every_prelude(battery), with_noise(battery), with_companion(battery), with_debug_log(battery)]

    def run_header(self, case):
        b0, b1 = case["hdr"]
        ctx_deflate, inside = case["ctx"]
        deflate, reply, ws_opts, mcfg = extension_context(ctx_deflate)
        ext = case["ext"]
        opcode = b0 & 15
        rsv1 = (b0 >> 6) & 1
        masked = b1 >> 7
        ln = b1 & 127
        n = ext if ext is not None else ln
        head = bytes([b0, b1])
        if ln == 126:
            head += struct.pack("!H", n)
        elif ln == 127:
            head += struct.pack("!Q", n)
        truncated = n > 70000
        send_n = 100 if truncated else n
        unspecified_payload = False
        in_text = inside  # context prefix is an unfinished TEXT message
        if opcode == wire.CLOSE:
            body = (struct.pack("!H", 1000) + b"a" * send_n)[:send_n] if n != 1 else b"\x03"
        elif deflate and rsv1 and opcode in (wire.TEXT, wire.BINARY):
            if n == 1 or (5 <= n <= 70000):
                body, _ = deflateref.stored_payload(n)
            else:
                body = b"\x00" * send_n
                unspecified_payload = True
        else:
            body = b"a" * send_n
        if masked:
            key = b"\x01\x02\x03\x04"
            head += key
            body = wire._xor(key, body)
        prefix = wire.build_frame(wire.TEXT, b"ab", fin=0) if inside else b""
        # a final continuation comes first: if the header under test is a (legal or wrongly accepted)
        # non-final fragment, the message is completed and would be delivered
        suffix = wire.build_frame(wire.CONT, b"-fin") + wire.build_frame(wire.BINARY, SUFFIX_SENTINEL)
        data = prefix + head + body + (b"" if truncated else suffix)
        model = refmodel.interpret(data, mcfg)
        scn = build.scenario(
            [["wait_request"], ["stream", [["reply", reply], ["bytes", data]], "whole", 0.0], ["eof", 0.0]],
            ws_opts=ws_opts)
        tr = simnet.run_scenario(scn)
        labels = {"hdr:" + (model.violation or ("unspecified" if model.unspecified else "accepted"))}
        nontrivial = bool(model.violation) or bool(inside)
        names = tr.names()
        if tr.hang:
            return failed("hang", tr.hang, labels, nontrivial)
        if tr.escaped:
            return failed("escaped_exception", tr.escaped, labels, nontrivial)
        if names[-1:] != ["disconnected"]:
            return failed("no_terminal_event", "events=%s" % names, labels, nontrivial)
        if model.unspecified or unspecified_payload:
            labels.add("hdr:content_not_compared")
            return held(labels, nontrivial)
        if model.violation:
            # the sentinel of the header frame itself is 'aaaa...' - compare events instead
            res = check_violation_trace(tr, model, labels, nontrivial)
            if res is not None:
                return res
            return held(labels, nontrivial)
        # no violation expected: events must be exactly the model's, and no ProtocolError
        # (a violation that is visible in the header of a frame whose payload never
        # arrives may be reported early or not at all: the property fixes neither)
        if model.closed_by_server and "closing" in names:
            # whatever the client makes of bytes that follow the server's own Close is
            # outside the property: look only at the events up to Closing
            names_cmp = names[:names.index("closing") + 1]
        else:
            names_cmp = names
        if "protocol_error" in names_cmp and model.incomplete and model.early:
            labels.add("hdr:early_report_of_truncated_frame")
        elif "protocol_error" in names_cmp:
            return failed("false_protocol_error",
                          "ProtocolError for a legal frame header %02x %02x (ext=%r, deflate=%d, inside=%d): %r" % (
                              b0, b1, ext, deflate, inside,
                              [e for e in tr.events if e["name"] == "protocol_error"][0].get("error")),
                          labels, nontrivial)
        got = [e for e in tr.events if e["name"] in simnet.MESSAGE_EVENTS]
        if model.closed_by_server:
            # what follows the server's own Close is not fixed by the property
            for i, e in enumerate(got):
                if e["name"] == "closing":
                    got = got[:i + 1]
                    break
        why = compare_events(got, model.events)
        if why:
            return failed("delivery_mismatch", why + " | events=%s" % names, labels, nontrivial)
        return held(labels, nontrivial)

    def extra(self, tier, seed, acc):
        if tier != "thorough":
            return None
        from harness import fuzzstage
        return fuzzstage.run("c04", acc, seed)


PROP = C04()
