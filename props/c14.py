"""C14 - every Ping is answered by exactly one matching Pong, in order."""
from hypothesis import strategies as st

from harness import build, gen, simnet, wire, httpref, deflateref
from harness.runner import Prop, Enumeration, held, failed, after_every_prelude, with_noise, with_companion, with_debug_log
from props.c01 import effective_seg, compare_events


# violations that the frame parser finds while parsing a read (header-level) as well as later ones
TAIL_CLASSES = ["reserved_opcode", "reserved_bits", "fragmented_control", "control_too_long", "masked_frame",
                "nothing_to_continue", "text_bad_utf8", "close_1_byte", "close_bad_utf8"]


def ping_msg():
    return st.builds(lambda p, f: {"kind": "ping", "payload": p, "forms": [f]}, gen.control_payload(),
                     gen.weighted([(8, st.just(0)), (1, st.just(1))]))


def lib_frames(sim):
    """[(log index, ev_index, Frame, ok)] for every write made while the library
    (not the application's handler) was running, HTTP request excluded."""
    out = []
    for i, e in enumerate(sim.log):
        if e[0] not in ("send", "send_fail") or e[4] != "lib":
            continue
        data = e[2]
        if data.startswith(b"GET "):
            continue
        frames, rest = wire.decode_frames(data)
        for f in frames:
            out.append((i, e[5], f, e[0] == "send"))
        if rest:
            out.append((i, e[5], None, e[0] == "send"))
    return out


# ---- scheduled scenarios: the Pong must precede the application's reaction even while another
# thread is in the middle of a send (the event loop then has to wait for the write lock) ----------

def _sched_scenarios():
    from props import racecommon as rc
    pings = (rc.B(wire.PING, b"p-one") + rc.B(wire.PING, b"p-two")).hex()
    P = rc.payload_for
    base = {"threads": {"A": [["send_text", P("A", 0)], ["send_binary", P("A", 1)]]},
            "loop": {"bytes": pings, "idle_waits": 0, "react": {"ping": ["send_text", "re:"]}},
            "copts": {"ping_rate": 0}}
    # another thread calls close() while the event loop answers Pings: a Ping that is handed to the application while
    # no Close frame has been written yet must have been answered
    closer = {"threads": {"C": [["close", 1000, "bye"]]},
              "loop": {"bytes": pings, "idle_waits": 0}, "copts": {"ping_rate": 0}, "deflate": False}
    closer2 = dict(closer, threads={"C": [["close", 1000, "bye"]], "A": [["send_text", P("A", 0)]]})
    return {"pong_vs_sender_plain": dict(base, deflate=False), "pong_vs_sender_deflate": dict(base, deflate=True),
            "pong_vs_closer": closer, "pong_vs_closer_and_sender": closer2}


def _sched_judge(scn, out):
    from harness import deflateref
    if out.aborted:
        return "hang", out.aborted
    for name, err in out.errors.items():
        return "escaped_exception", "thread %s: %r" % (name, err)
    for name, st_ in out.states.items():
        if st_ not in ("done", "parked"):
            return "deadlock", "thread %s ended in state %s" % (name, st_)
    frames, problems = wire.decode_client_frames(out.wire)
    if problems:
        return "torn_library_write", "; ".join(problems[:3])
    if "C" in scn["threads"]:
        return _judge_closer(scn, out)
    peer = deflateref.Peer()
    seq = []
    for f in frames:
        body = f.payload
        if f.rsv1:
            try:
                body = peer.inflate(body)
            except deflateref.InflateError as error:
                return "torn_library_write", "peer cannot inflate: %s" % error
        seq.append((f.opcode, body))
    for p in (b"p-one", b"p-two"):
        pongs = [i for i, (op, b) in enumerate(seq) if op == wire.PONG and b == p]
        reacts = [i for i, (op, b) in enumerate(seq) if op == wire.TEXT and b == b"re:" + p]
        if len(pongs) != 1:
            return "pong_count", "%d Pongs for Ping %r; wire %s" % (len(pongs), p, [(o, b[:10]) for o, b in seq])
        if len(reacts) != 1:
            return "harness", "reaction to %r written %d times" % (p, len(reacts))
        if pongs[0] > reacts[0]:
            return "pong_order", ("the Pong for Ping %r was written AFTER the frame the application sent in reaction to "
                                  "that Ping event; wire order %s" % (p, [(o, b[:10]) for o, b in seq]))
    order = [i for i, (op, b) in enumerate(seq) if op == wire.PONG]
    if [seq[i][1] for i in order] != [b"p-one", b"p-two"]:
        return "pong_order", "Pongs out of order: %s" % [seq[i][1] for i in order]
    return None


def _judge_closer(scn, out):
    """Every Ping handed to the application at a moment when no Close frame had been written yet has its Pong on the
    wire already (the library answers before it yields the event); the Pongs carry the Pings' payloads in order."""
    # the wire is the concatenation of the (possibly split) writes: a frame is "written" with its last byte
    stream = b"".join(d for _, d in out.send_log)
    ends = []
    pos = 0
    for i, d in out.send_log:
        pos += len(d)
        ends.append((pos, i))
    frames, problems = wire.decode_client_frames(stream)
    if problems:
        return "torn_library_write", "; ".join(problems[:3])
    closes_at = None
    pongs = []
    for f in frames:
        li = next(i for end, i in ends if end >= f.end)
        if f.opcode == wire.CLOSE and closes_at is None:
            closes_at = li
        if f.opcode == wire.PONG:
            pongs.append((li, f.payload))
    for name, data, mark in out.loop_marks:
        if name != "ping":
            continue
        close_written = closes_at is not None and closes_at < mark
        answered = [i for i, p in pongs if p == data and i < mark]
        if not close_written and not answered:
            return "ping_unanswered_before_close", (
                "Ping %r was handed to the application when no Close frame had been written (Close at log %s, event at log "
                "%d) but no Pong for it is on the wire; pongs %s" % (data, closes_at, mark, pongs))
    want = [d for n, d, m in out.loop_marks if n == "ping"]
    got = [p for _, p in pongs]
    if got != want[:len(got)]:
        return "pong_order", "Pongs %s for Pings %s" % (got, want)
    return None


class C14(Prop):
    id = "C14"
    level = "exploration"
    rule = ("conforming streams dense in Pings (payload 0..125 bytes, several per read, between the fragments of data "
            "messages, also of messages the peer sent compressed under a negotiated permessage-deflate configuration) x auto_pong on/off x application reactions (sends and own send_pong at Ping and other events, close() at a "
            "drawn message) x optional failure of one pong write (timeout / I/O error / arbitrary exception from sendall) x read "
            "segmentation. Oracle = invariant over the ordered wire log: library-written Pongs carry exactly the payloads of the "
            "Ping events that precede the client's Close, in order, each written after the previous event was yielded and before "
            "its Ping event is yielded (hence before any application write made in reaction to it); none with auto_pong off; a "
            "failed or refused pong leaves the event stream identical to the fault-free run. Non-trivial = >= 2 Pings with "
            "different payloads, or a Ping inside a fragmented message, or a Ping after close().")
    assumptions = ("library writes are told apart from application writes by who is running when sendall is called",
                   "the scheduled stage (a sender thread racing with the event loop's pong) uses the deterministic scheduler "
                   "of C11/C12 at source-line granularity, every thread order x every single preemption")
    examples = {"quick": 3000, "thorough": 150000}

    def strategy(self, tier):
        m = gen.weighted([(5, ping_msg()), (3, gen.data_msg(big=False)), (1, gen.control_msg(("pong",)))])
        sends = st.lists(st.fixed_dictionaries({
            "when": st.one_of(st.just(["event", "ping", None]), st.tuples(st.just("event"), st.just("ping"),
                                                                            st.integers(0, 4)).map(list),
                              st.tuples(st.just("msg"), st.integers(0, 8)).map(list), st.just(["event", "ready", 0])),
            "do": st.lists(st.sampled_from([["send_text", "at-ping"], ["pong", "6f776e"], ["send_binary", "aa"],
                                            ["ping", "71"]]), min_size=1, max_size=2)}), max_size=2)
        return st.fixed_dictionaries({
            "msgs": st.lists(m, min_size=1, max_size=10),
            "auto_pong": gen.weighted([(4, st.just(True)), (1, st.just(False))]),
            "sends": sends,
            "close_at": st.one_of(st.none(), st.integers(0, 8)),
            # the application calls close() before the opening handshake has finished (at Connected)
            "early_close": gen.weighted([(8, st.just(False)), (1, st.just(True))]),
            # connect() options passed positionally (documented order) instead of by keyword
            "connect_positional": gen.weighted([(4, st.just(False)), (1, st.just(True))]),
            "fault": st.one_of(st.none(), st.tuples(st.integers(0, 5), st.sampled_from(["timeout", "oserror", "exc"])).map(list)),
            "seg": gen.segmentation(),
            # an earlier connection in this process (same WebSocket object or another) and how it ended
            "prelude": gen.prelude(),
            # a second live connection in the same process (interleaved with this one, or blocked in a send)
            "companion": gen.companion(),
            # calls with unsendable arguments that the application tries (and whose error it catches) on the way
            "noise_calls": gen.noise_calls(),
            # the application has switched on DEBUG logging for the library
            "debug_log": gen.debug_log(),
            # permessage-deflate negotiated (any parameters); the data messages selected by cmask are sent
            # compressed by the peer, so Pings also arrive between the fragments of compressed messages
            # (Pongs must still go out uncompressed, with the Ping's payload)
            "deflate": gen.deflate_opt(),
            "cmask": st.integers(0, 255),
            # optionally one protocol-violating frame right behind the conforming stream
            "tail_violation": gen.weighted([(4, st.none()), (1, st.fixed_dictionaries({
                "class": st.sampled_from(TAIL_CLASSES), "a": st.integers(0, 20), "b": st.integers(0, 20), "wide": st.booleans()}))]),
        })

    def enumerations(self, tier):
        from props.c11 import C11

        class _Sched(C11):
            id = "C14"

            def scenarios(self_inner):
                return _sched_scenarios()

            def judge(self_inner, scn, out):
                return _sched_judge(scn, out)

            def bound2(self_inner):
                return []
        self._sched = _Sched()
        inner = self._sched.enumerations(tier)[0]

        def cases():
            for c in inner.make():
                yield dict(c, sched=True)
        ping = lambda h: {"kind": "ping", "payload": ["hex", h], "forms": [0]}      # noqa: E731
        battery = [
            {"msgs": [ping("01"), ping(""), {"kind": "text", "payload": ["str", "abcdef"], "forms": [0], "frag": [2, 4],
                                            "inter": [[0, ping("6265747765656e")], [1, ping("02")]]}, ping("ff" * 125)],
             "auto_pong": True, "sends": [{"when": ["event", "ping", None], "do": [["send_text", "at-ping"]]}],
             "close_at": None, "fault": None, "seg": "whole", "deflate": False, "cmask": 0},
        ]
        def around_full_reads():
            # Pings before, between and behind messages of 64 KiB and more, delivered in as few reads as possible: reads
            # that fill the client's 64 KiB buffer exactly, and the reads right behind them - with automatic Pongs on and off
            for auto_pong in (True, False):
                for size in (65536 - 4 - 3, 65536 - 4, 65536, 70000, 131072 + 20, 200000):
                    for kind in ("binary", "text"):
                        for deflate in (False, True):
                            big = {"kind": kind, "payload": ["rand", size, size] if kind == "binary" else ["ascii", size, size],
                                   "forms": [0]}
                            yield {"msgs": [ping("61"), big, ping("62"), {"kind": "text", "payload": ["str", "t"], "forms": [0]},
                                            ping(""), big, ping("63" * 100)],
                                   "auto_pong": auto_pong, "sends": [], "close_at": None, "fault": None, "seg": "whole",
                                   "deflate": deflate, "cmask": 0}
        def early_close():
            for b in battery:
                for auto_pong in (True, False):
                    for seg in ("whole", "bytewise", ["uniform", 7]):
                        for d in (False, True):
                            yield dict(b, early_close=True, auto_pong=auto_pong, seg=seg, deflate=d)
            for b in battery:
                # the options passed positionally, in the documented order
                for auto_pong in (True, False):
                    for d in (False, True):
                        yield dict(b, connect_positional=True, auto_pong=auto_pong, deflate=d)
        return [Enumeration("pong_before_reaction_all_single_preemptions", cases, exhaustive=True),
                Enumeration("close_called_before_the_handshake_finished", early_close, exhaustive=True),
                Enumeration("pings_around_reads_that_fill_the_receive_buffer", around_full_reads, exhaustive=True),
                after_every_prelude(battery), with_noise(battery), with_companion(battery), with_debug_log(battery),
                Enumeration("pings_followed_by_every_kind_of_violating_frame",
                            lambda: (dict(b, tail_violation={"class": c, "a": a, "b": 1, "wide": False}, seg=seg, deflate=d)
                                     for b in battery for c in TAIL_CLASSES for a in (0, 1, 2)
                                     for seg in ("whole", ["uniform", 7]) for d in (False, True)), exhaustive=True)]

    def scenario(self, case, fault_ordinal=None):
        msgs, deflater = case["msgs"], None
        if case.get("deflate"):
            peer = deflateref.peer_of(case["deflate"])
            mask = case.get("cmask", 0)
            msgs = [dict(m, compress=True) if m["kind"] in ("text", "binary") and (mask >> (i % 8)) & 1 else m
                    for i, m in enumerate(msgs)]
            deflater = lambda payload, msg: peer.compress(payload)     # noqa: E731
        built = build.build_session(msgs, deflater)
        tail = b""
        if case.get("tail_violation"):
            # the conforming stream is followed - possibly in the same read - by ONE frame that violates the
            # protocol: every Ping before it has been received in full and must be answered as usual
            from props.c04 import violating_frames
            tail = violating_frames(dict(case["tail_violation"]), bool(case.get("deflate")))
        built.data = bytes(built.data) + tail
        reply_len = len(httpref.build_reply(None, b""))
        seg = effective_seg(case["seg"], reply_len + len(built.data))
        reactions = list(case["sends"])
        if case["close_at"] is not None:
            reactions.append({"when": ["msg", case["close_at"]], "do": [["close", 1000, "done"]]})
        if case.get("early_close"):
            reactions.append({"when": ["event", "connected", 0], "do": [["close", 1000, "early"]]})
        att = {}
        if fault_ordinal is not None:
            att["faults"] = {"send": {str(fault_ordinal): case["fault"][1]}}
        reply = httpref.canonical_spec(extensions=[deflateref.header_of(case["deflate"])]) if case.get("deflate") else None
        scn = build.scenario(
            [["wait_request"], ["stream", [["reply", reply], ["bytes", bytes(built.data)]], seg, 0.0], ["eof", 1.0]],
            connect_opts={"auto_pong": case["auto_pong"], "ping_rate": 0, "close_timeout": None},
            ws_opts={"compress": True} if case.get("deflate") else None,
            reactions=reactions, attempt_extra=att)
        return scn, built

    def run_case(self, case):
        if case.get("sched"):
            if not hasattr(self, "_sched"):
                self.enumerations("quick")
            inner = dict(case)
            inner.pop("sched")
            return self._sched.run_case(inner)
        scn, built = self.scenario(case)
        tr = simnet.run_scenario(scn)
        res = self.check(case, tr, built, None)
        if res is not None:
            return res
        labels, nontrivial = self._labels
        fault = case["fault"]
        if fault is not None and case["auto_pong"]:
            pongs = [(i, ev, f) for i, ev, f, ok in lib_frames(tr.sim) if f is not None and f.opcode == wire.PONG]
            if pongs:
                k = fault[0] % len(pongs)
                li = pongs[k][0]
                ordinal = sum(1 for e in tr.sim.log[:li] if e[0] in ("send", "send_fail"))
                scn2, _ = self.scenario(case, ordinal)
                tr2 = simnet.run_scenario(scn2)
                labels.add("pong_write_fault:" + fault[1])
                res = self.check(case, tr2, built, k)
                if res is not None:
                    return res
                a = [(e["name"], e.get("data"), e.get("text")) for e in tr.events if e["name"] != "poll"]
                b = [(e["name"], e.get("data"), e.get("text")) for e in tr2.events if e["name"] != "poll"]
                if a != b:
                    return failed("failed_pong_disturbs_events",
                                  "pong %d could not be written (%s) and the event stream changed: %s vs %s" % (
                                      k, fault[1], [x[0] for x in a], [x[0] for x in b]), labels, nontrivial)
        return held(labels, nontrivial)

    def check(self, case, tr, built, faulted):
        names = tr.names()
        ping_idx = [i for i, n in enumerate(names) if n == "ping"]
        payloads = [tr.events[i]["data"] for i in ping_idx]
        labels = {"auto_pong:%s" % case["auto_pong"], "pings:%d" % min(len(ping_idx), 6),
                  "deflate" if case.get("deflate") else "plain"}
        # "has not yet sent a Close frame" is read off the WIRE (not off what close() returned): the event index at which
        # the first Close frame of the client went out, whoever wrote it
        close_ev = None
        for e in tr.sim.log:
            if e[0] == "send" and not e[2].startswith(b"GET ") and close_ev is None:
                fr, _rest = wire.decode_frames(e[2])
                if any(f.opcode == wire.CLOSE for f in fr):
                    close_ev = e[5]
        ping_after_close = close_ev is not None and any(i > close_ev for i in ping_idx)
        in_fragment = "interleaved_control" in built.flags
        nontrivial = len(set(payloads)) >= 2 or in_fragment or ping_after_close
        if ping_after_close:
            labels.add("ping_after_close")
        if in_fragment:
            labels.add("ping_between_fragments")
        self._labels = (labels, nontrivial)
        if tr.hang:
            return failed("hang", tr.hang, labels, nontrivial)
        if tr.escaped:
            return failed("escaped_exception", tr.escaped, labels, nontrivial)
        # the stream is conforming: every message must arrive (C01), in particular every Ping
        got = [e for e in tr.events if e["name"] in ("text", "binary", "ping", "pong")]
        if case.get("tail_violation"):
            got = got[:len(built.expected)]       # what the client makes of the violating frame is C04's business
            labels.add("violating_frame_after_the_pings")
        why = compare_events(got, built.expected)
        if why:
            return failed("event_stream_disturbed", why + " | events %s" % names, labels, nontrivial)
        lf = lib_frames(tr.sim)
        if any(f is None for _, _, f, _ in lf):
            return failed("torn_library_write", "a library write is not a whole frame", labels, nontrivial)
        lib_pongs = [(i, ev, f, ok) for i, ev, f, ok in lf if f.opcode == wire.PONG]
        if not case["auto_pong"]:
            if lib_pongs:
                return failed("pong_with_auto_pong_off", "%d Pongs written by the library with auto_pong=False" % len(lib_pongs),
                              labels, nontrivial)
            return None
        expected = []
        for n, i in enumerate(ping_idx):
            if close_ev is not None and i > close_ev:
                continue
            expected.append((i, payloads[n]))
        attempted = lib_pongs
        if len(attempted) != len(expected):
            return failed("pong_count", "%d Pings before the client's Close, %d Pongs written by the library; events %s" % (
                len(expected), len(attempted), names), labels, nontrivial)
        for n, ((pi, want), (li, ev, f, ok)) in enumerate(zip(expected, attempted)):
            if f.rsv1 or f.rsv2 or f.rsv3 or not f.fin:
                return failed("pong_payload", "Pong %d has reserved bits set / is fragmented (RSV1=%d): control frames are "
                              "never compressed" % (n, f.rsv1), labels, nontrivial)
            if f.payload != want:
                return failed("pong_payload", "Pong %d carries %s, Ping carried %s" % (n, f.payload.hex(), want.hex()),
                              labels, nontrivial)
            if ev != pi - 1:
                return failed("pong_order", "Pong %d was written while event %d was the last one yielded; its Ping is "
                              "event %d (it must go out before the Ping event is handed to the application)" % (n, ev, pi),
                              labels, nontrivial)
            if (not ok) != (faulted is not None and n == faulted):
                return failed("harness", "fault bookkeeping", labels, nontrivial)
        problems = wire.decode_client_frames(b"".join(f_bytes for f_bytes in
                                                      [e[2] for e in tr.sim.log if e[0] == "send"][1:]))[1]
        if problems:
            return failed("invalid_client_frame", "; ".join(problems), labels, nontrivial)
        return None


PROP = C14()
