"""C11 - concurrent senders never corrupt the wire."""
from hypothesis import strategies as st

from harness import wire, deflateref, simnet
from harness.runner import Prop, Enumeration, held, failed
from props import racecommon as rc

P = rc.payload_for
PINGS2 = (rc.B(wire.PING, b"ping-one") + rc.B(wire.PING, b"ping-two")).hex()

SCENARIOS = {
    "2x1_text_plain": {"deflate": False, "threads": {"A": [["send_text", P("A", 0)]], "B": [["send_text", P("B", 0)]]}},
    "2x2_plain": {"deflate": False, "threads": {"A": [["send_text", P("A", 0)], ["send_binary", P("A", 1)]],
                                                 "B": [["send_text", P("B", 0)], ["send_ping", "B-1:ping"]]}},
    "3x1_all_compressed_deflate": {"deflate": True, "threads": {"A": [["send_text", P("A", 0)]], "B": [["send_binary", P("B", 0)]],
                                                                "C": [["send_text", P("C", 0)]]}},
    "2x1_text_deflate": {"deflate": True, "threads": {"A": [["send_text", P("A", 0)]], "B": [["send_text", P("B", 0)]]}},
    "2x1_text_binary_deflate": {"deflate": True, "threads": {"A": [["send_text", P("A", 0)]], "B": [["send_binary", P("B", 0)]]}},
    "2x1_text_ping_deflate": {"deflate": True, "threads": {"A": [["send_text", P("A", 0)]], "B": [["send_ping", "B-0:ping"]]}},
    "2x2_deflate": {"deflate": True, "threads": {"A": [["send_text", P("A", 0)], ["send_text", P("A", 1)]],
                                                  "B": [["send_binary", P("B", 0)], ["send_binary", P("B", 1)]]}},
    "3x1_deflate": {"deflate": True, "threads": {"A": [["send_text", P("A", 0)]], "B": [["send_ping", "B-0:ping"]],
                                                  "C": [["send_binary", P("C", 0)]]}},
    "2x3_deflate": {"deflate": True, "threads": {"A": [["send_text", P("A", k)] for k in range(3)],
                                                  "B": [["send_text", P("B", k)] for k in range(3)]}},
    "autopong_vs_send_deflate": {"deflate": True, "threads": {"A": [["send_text", P("A", 0)], ["send_text", P("A", 1)]]},
                                 "loop": {"bytes": PINGS2, "idle_waits": 0}, "copts": {"ping_rate": 0}},
    "autoping_vs_sends_plain": {"deflate": False, "threads": {"A": [["send_text", P("A", 0)]], "B": [["send_binary", P("B", 0)]]},
                                "loop": {"bytes": "", "idle_waits": 1}, "copts": {"ping_rate": 1.0, "poll": 2.0}},
    "autopong_vs_2_senders_deflate": {"deflate": True, "threads": {"A": [["send_text", P("A", 0)]], "B": [["send_text", P("B", 0)]]},
                                      "loop": {"bytes": PINGS2, "idle_waits": 0}, "copts": {"ping_rate": 0}},
}
NCT = "permessage-deflate; client_no_context_takeover"
SCENARIOS.update({
    # client_no_context_takeover: every message is deflated on its own, but the compressor object is
    # still shared by all senders
    "2x1_text_deflate_nct": {"deflate": True, "extension": NCT,
                             "threads": {"A": [["send_text", P("A", 0)]], "B": [["send_text", P("B", 0)]]}},
    "2x2_deflate_nct": {"deflate": True, "extension": NCT,
                        "threads": {"A": [["send_text", P("A", 0)], ["send_binary", P("A", 1)]],
                                    "B": [["send_binary", P("B", 0)], ["send_text", P("B", 1)]]}},
    # a compressed sender, an uncompressed sender and a control sender at once
    "mixed_compress_flags": {"deflate": True,
                             "threads": {"A": [["send_text", P("A", 0)]], "B": [["send_text_raw", P("B", 0)]],
                                         "C": [["send_ping", "C-0:ping"]]}},
})
BIG = rc.big_payload
SCENARIOS.update({
    # payload sizes of the other length classes: 16-bit length form, and beyond 64 KiB (64-bit length form, larger than any
    # buffer or chunk size in the client) - racing with a small frame of another thread / of the event loop
    "medium_vs_ping_plain": {"deflate": False, "threads": {"A": [["send_text", BIG("A", 0, 300)]], "B": [["send_ping", "B-0:ping"]]}},
    "large_vs_ping_plain": {"deflate": False, "threads": {"A": [["send_binary", BIG("A", 0, 70000)]], "B": [["send_ping", "B-0:ping"]]}},
    "large_vs_text_plain": {"deflate": False, "threads": {"A": [["send_text", BIG("A", 0, 140000)]], "B": [["send_text", P("B", 0)]]}},
    "large_uncompressed_vs_ping_deflate": {"deflate": True, "threads": {"A": [["send_text_raw", BIG("A", 0, 70000)]],
                                                                         "B": [["send_ping", "B-0:ping"]]}},
    "large_incompressible_vs_ping_deflate": {"deflate": True, "threads": {"A": [["send_binary", BIG("A", 0, 150000)]],
                                                                           "B": [["send_ping", "B-0:ping"]]}},
    "large_vs_autopong_plain": {"deflate": False, "threads": {"A": [["send_binary", BIG("A", 0, 70000)]]},
                                "loop": {"bytes": PINGS2, "idle_waits": 0}, "copts": {"ping_rate": 0}},
})
# the event loop INFLATES a compressed message of the server (and answers a ping) while the senders deflate theirs:
# both directions live in one extension object
_SRV = deflateref.Peer()
INCOMING = (rc.B(wire.TEXT, _SRV.compress(b"news from the server, news from the server"), rsv1=1) + rc.B(wire.PING, b"ping-one") +
            rc.B(wire.BINARY, _SRV.compress(b"more news from the server"), rsv1=1)).hex()
_SRV = deflateref.Peer(server_nct=True)
INCOMING_SNCT = (rc.B(wire.TEXT, _SRV.compress(b"news from the server, news from the server"), rsv1=1) + rc.B(wire.PING, b"ping-one") +
                 rc.B(wire.BINARY, _SRV.compress(b"more news from the server"), rsv1=1)).hex()
SCENARIOS.update({
    "inflate_vs_senders_deflate": {"deflate": True, "threads": {"A": [["send_text", P("A", 0)], ["send_text", P("A", 1)]],
                                                                  "B": [["send_binary", P("B", 0)]]},
                                   "loop": {"bytes": INCOMING, "idle_waits": 0}, "copts": {"ping_rate": 0}},
    "inflate_vs_sender_deflate_nct": {"deflate": True, "extension": NCT,
                                      "threads": {"A": [["send_text", P("A", 0)], ["send_text", P("A", 1)]]},
                                      "loop": {"bytes": INCOMING, "idle_waits": 0}, "copts": {"ping_rate": 0}},
    "inflate_vs_sender_deflate_both_nct": {"deflate": True,
                                           "extension": "permessage-deflate; server_no_context_takeover; client_no_context_takeover",
                                           "threads": {"A": [["send_text", P("A", 0)], ["send_text", P("A", 1)]]},
                                           "loop": {"bytes": INCOMING_SNCT, "idle_waits": 0}, "copts": {"ping_rate": 0}},
})
import hashlib as _hashlib
_NOISE = (_hashlib.sha256(b"noise-1").digest() + _hashlib.sha256(b"noise-2").digest()[:16]).hex()     # 48 random bytes
SCENARIOS.update({
    # content-dependent paths: a payload deflate cannot shrink (random bytes), and another sender's payload that repeats
    # it (what the first one leaves in the shared window matters to the second)
    "incompressible_vs_overlapping_binary_deflate": {"deflate": True, "threads": {
        "A": [["send_binary_hex", _NOISE]], "B": [["send_binary_hex", "3e3e" + _NOISE + _NOISE]]}},
    "incompressible_then_text_vs_overlapping_deflate": {"deflate": True, "threads": {
        "A": [["send_binary_hex", _NOISE], ["send_text", "x" + _NOISE]],
        "B": [["send_binary_hex", _NOISE[16:80] + "7c" + _NOISE]]}},
})
BOUND2 = ["2x1_text_plain", "2x1_text_deflate", "2x1_text_binary_deflate", "2x1_text_ping_deflate"]
FIRST_USE = ["2x1_text_deflate", "2x1_text_deflate_nct", "2x2_deflate_nct"]
IN_WRITE = ["2x2_plain", "close_vs_2_sends", "3x1_deflate", "send_ping_close", "close_close_send", "3x1_all_compressed_deflate"]
PAIRS_AT_POINTS = ["3x1_all_compressed_deflate", "3x1_deflate"]
IN_WRITE_POINTS = ("sendall.mid", "lock.acquire", "cond.wait", "cond.notify")
FIRST_USE_NARROW = ["2x2_deflate_nct"]
EARLY = 24
_BASE = {}


def thread_names(scn):
    return list(scn["threads"]) + (["loop"] if scn.get("loop") is not None else [])


def baseline_steps(name, order):
    key = (name, tuple(order))
    if key not in _BASE:
        _BASE[key] = rc.run_schedule(SCENARIOS[name], {"order": list(order), "preempt": []}).steps
    return _BASE[key]


def judge(scn, out):
    """C11 oracle for one execution; returns (signature, detail) or None."""
    if out.aborted:
        return "hang", out.aborted
    if out.leaked_threads:
        return "harness", "threads did not unwind: %s" % out.leaked_threads
    for name, err in out.errors.items():
        return "escaped_exception", "thread %s: %r" % (name, err)
    for name, st_ in out.states.items():
        if st_ not in ("done", "parked"):
            return "deadlock", "thread %s ended in state %s" % (name, st_)
    frames, problems = wire.decode_client_frames(out.wire)
    if problems:
        return "torn_or_invalid_frames", "; ".join(problems[:3])
    peer = deflateref.Peer(client_nct="client_no_context_takeover" in scn.get("extension", ""))
    seen = []
    for i, f in enumerate(frames):
        body = f.payload
        if f.rsv1:
            try:
                body = peer.inflate(body)
            except deflateref.InflateError as error:
                return "peer_cannot_inflate", "frame %d of %d in wire order: %s" % (i, len(frames), error)
        seen.append((f.opcode, body))
    expected = []
    for name, calls in scn["threads"].items():
        res = out.results.get(name, [])
        if len(res) != len(calls):
            return "harness", "thread %s completed %d of %d calls" % (name, len(res), len(calls))
        mine = []
        for call, result, mro in res:
            if result != "ok":
                return "send_failed", "thread %s: %s raised %s on an open connection" % (name, call[0], result)
            op = {"send_text": wire.TEXT, "send_text_raw": wire.TEXT, "send_binary": wire.BINARY, "send_ping": wire.PING,
                  "send_pong": wire.PONG, "send_binary_hex": wire.BINARY}[call[0]]
            mine.append((op, bytes.fromhex(call[1]) if call[0] == "send_binary_hex" else call[1].encode("utf-8")))
        expected.append((name, mine))
    lib = []
    loop = scn.get("loop")
    if loop is not None:
        lf, _ = wire.decode_frames(bytes.fromhex(loop.get("bytes", "")))
        lib += [(wire.PONG, f.payload) for f in lf if f.opcode == wire.PING]
        if scn.get("copts", {}).get("ping_rate"):
            lib += [(wire.PING, b"")] * loop.get("idle_waits", 0)
    rest = list(seen)
    for name, mine in expected + [("loop", lib)]:
        pos = -1
        for m in mine:
            try:
                j = rest.index(m)
            except ValueError:
                return "message_missing_or_corrupted", "%s's message %r (opcode %d) is not on the wire intact; wire has %s" % (
                    name, m[1][:24], m[0], [(o, b[:12]) for o, b in seen])
            idx_in_seen = [k for k, x in enumerate(seen) if x == m]
            rest.pop(j)
        order_on_wire = [seen.index(m) for m in mine]
        if order_on_wire != sorted(order_on_wire):
            return "per_thread_order", "%s's messages appear on the wire in order %s" % (name, order_on_wire)
    if rest:
        return "unexpected_frames", "frames nobody sent: %s" % [(o, b[:16]) for o, b in rest]
    return None


class C11(Prop):
    id = "C11"
    level = "exploration"
    rule = ("19 scenarios (2-3 application threads x 1-3 sends of mutually similar payloads - short ones, one of 300 bytes and "
            "hardly compressible ones of 70 000-150 000 bytes -, text/binary/ping, with and without "
            "permessage-deflate context takeover, optionally the event-loop thread answering Pings or crossing a ping deadline) "
            "run under a deterministic scheduler that serialises real threads at source-line granularity inside lomond plus the "
            "lock acquisition and the middle of every sendall. Schedules: every initial thread order x every single preemption at "
            "every step (exhaustive, both tiers); every pair of preemptions for the four 2x1 scenarios (thorough); Hypothesis-"
            "drawn schedules with up to 8 preemptions. Oracle: the wire decodes into whole valid frames, holds exactly the "
            "messages sent (plus the library's pongs/pings), each thread's in call order, and an RFC 7692 peer inflates every "
            "compressed frame in wire order. Non-trivial = at least one preemption took effect while the preempted thread was "
            "inside a send call.")
    assumptions = ("preemption granularity is the source line (plus lock acquisition and mid-sendall); switches inside a line or "
                   "inside C calls such as zlib are not explored",)
    examples = {"quick": 1500, "thorough": 30000}
    KNOWN_SIGNATURE = None

    def scenarios(self):
        return SCENARIOS

    def judge(self, scn, out):
        return judge(scn, out)

    def enumerations(self, tier):
        import itertools
        scns = self.scenarios()
        bound2 = self.bound2() if tier == "thorough" else []

        def cases():
            for name, scn in scns.items():
                names = thread_names(scn)
                for order in itertools.permutations(names):
                    yield {"scn": name, "order": list(order), "first": None}
                    # up to the preemption the run equals the baseline, so the thread that is
                    # current at step s is known; only switches to another thread that is
                    # still able to run can take effect (the rest would be vacuous)
                    log = baseline_log_for(self, name, order)
                    done_after = {}
                    for step, who, _ in log:
                        done_after[who] = step
                    for step, who, _ in log:
                        s = step - 1
                        for t in names:
                            if t != who and done_after.get(t, 10 ** 9) >= step:
                                yield {"scn": name, "order": list(order), "first": [s, t], "sweep2": name in bound2,
                                       "chain2": len(names) >= 3 and name not in bound2}
        def first_use_races():
            # races of INITIALISATION happen at the very start of the first send: an early first preemption (within the
            # first EARLY steps) x every second preemption
            for name in self.first_use():
                if name not in scns or name in bound2:
                    continue
                scn = scns[name]
                names = thread_names(scn)
                for order in itertools.permutations(names):
                    log = baseline_log_for(self, name, order)
                    for step, who, _ in log[:EARLY]:
                        for t in names:
                            if t != who:
                                c = {"scn": name, "order": list(order), "first": [step - 1, t], "sweep2": True}
                                if name in FIRST_USE_NARROW and tier == "quick":
                                    # (cost bound for the four-call scenario: second preemptions only where a thread is
                                    # inside the extension's code or at a write / lock / condition point)
                                    c["sweep2_in"] = "compression.py"
                                yield c
        def in_write_races():
            # a first preemption while the running thread is INSIDE the locked write (between the two halves of the
            # socket write) or about to take a lock - another thread then queues up behind it - x every second preemption
            for name in self.in_write():
                if name not in scns or name in bound2:
                    continue
                scn = scns[name]
                names = thread_names(scn)
                for order in itertools.permutations(names):
                    log = baseline_log_for(self, name, order)
                    for step, who, where in log:
                        if where not in IN_WRITE_POINTS:
                            continue
                        for t in names:
                            if t != who:
                                if len(names) >= 3:
                                    # three actors: the second one queues up, hand over to the third (chain), then a
                                    # third preemption at every later write / lock point
                                    yield {"scn": name, "order": list(order), "first": [step - 1, t], "chain2": True,
                                           "chain3": True}
                                    if name in PAIRS_AT_POINTS:
                                        # ... and every PAIR of preemptions that both sit at a write / lock / condition
                                        # point, the preempted threads resuming in reverse order (two threads queue up
                                        # behind the first while it is still inside its write)
                                        yield {"scn": name, "order": list(order), "first": [step - 1, t], "sweep2": True,
                                               "sweep2_in": "<points only>", "resume": "lifo"}
                                else:
                                    yield {"scn": name, "order": list(order), "first": [step - 1, t], "sweep2": True}
        out = [Enumeration("all_orders_x_single_preemptions" + ("_and_pairs" if bound2 else ""), cases, exhaustive=True)]
        if self.in_write():
            out.append(Enumeration("preemption_inside_a_write_x_every_second_preemption", in_write_races, exhaustive=True))
        if self.first_use():
            out.append(Enumeration("early_first_preemption_x_every_second_preemption", first_use_races, exhaustive=True))
        if type(self) is C11:
            def slow_sends():
                for proxy in (False, True):
                    for tls in (False, True):
                        for size in (300, 70000, 200000):
                            for secs in (12.0, 45.0, 400.0):
                                yield {"slow_send": True, "proxy": proxy, "tls": tls, "size": size, "secs": secs}
            out.append(Enumeration("a_send_that_takes_long_then_other_writers_direct_proxy_tls", slow_sends, exhaustive=True))
        return out

    def first_use(self):
        return FIRST_USE

    def in_write(self):
        return [n for n in IN_WRITE if n in self.scenarios()]

    def bound2(self):
        return BOUND2

    def strategy(self, tier):
        scns = self.scenarios()

        @st.composite
        def case(draw):
            name = draw(st.sampled_from(sorted(scns)))
            names = thread_names(scns[name])
            order = draw(st.permutations(names))
            k = draw(st.integers(2, 8))
            pre = draw(st.lists(st.tuples(st.integers(0, 500), st.sampled_from(names)).map(list), min_size=k, max_size=k))
            return {"scn": name, "order": list(order), "preempt": sorted(pre)}
        return case()

    def run_one(self, scn, schedule, labels, sub, key, keep_log=False):
        out = rc.run_schedule(scn, schedule, keep_log=keep_log)
        took = len(out.taken)
        nontrivial = took > 0
        sub.append((key, nontrivial))
        labels.add("preemptions_taken:%d" % min(took, 8))
        bad = self.judge(scn, out)
        if bad:
            where = ["step %d: %s -> %s at %s" % (s, a, b, _w(w)) for s, a, b, w in out.taken]
            return out, (bad[0], "%s | schedule order=%s preemptions=%s" % (bad[1], schedule["order"], where))
        return out, None

    def run_slow_send(self, case):
        """Writers one after the other around a send that takes a long (virtual) time - a peer that stopped reading, a slow
        link; 45 s, longer than the 30 s the client allows for connecting - on a direct / proxied / TLS connection: the slow
        send is a blocking one and completes; the application's next sends and the loop's Pongs follow it.  The wire must be
        whole frames holding exactly those messages."""
        from harness import build, httpref
        big = rc.big_payload("A", 0, case["size"])
        ping = wire.build_frame(wire.PING, b"are you there")
        reactions = [{"when": ["event", "ready", 0], "do": [["send_binary", big.encode().hex()], ["send_text", "after the slow one"]]},
                     {"when": ["event", "ping", 0], "do": [["send_text", "at the ping"]]}]
        script = [["wait_request"]]
        if case["proxy"]:
            from props.c09 import PROXY_200
            script += [["stream", [["bytes", PROXY_200]], "whole", 0.0], ["wait_requests", 2]]
        script += [["stream", [["reply", None]], "whole", 0.0], ["stream", [["bytes", ping]], "whole", 50.0], ["eof", 60.0]]
        kw = {"url": "wss://example.test/"} if case["tls"] else {}
        if case["proxy"]:
            kw["ws_opts"] = {"proxies": {"http": "http://proxy.test:3128", "https": "http://proxy.test:3128"}}
        # the slow write is the first one after the upgrade request(s)
        ordinal = 2 if case["proxy"] else 1
        scn = build.scenario(script, reactions=reactions, connect_opts={"ping_rate": 0, "poll": 5.0},
                             attempt_extra={"faults": {"send": {str(ordinal): "slow:%s" % case["secs"]}}}, horizon=500.0, **kw)
        tr = simnet.run_scenario(scn)
        labels = {"slow_send", "proxy" if case["proxy"] else "direct", "wss" if case["tls"] else "ws"}
        if tr.hang:
            return failed("hang", tr.hang, labels, True)
        if tr.escaped:
            return failed("escaped_exception", tr.escaped, labels, True)
        out = b"".join(e[2] for e in tr.sim.log if e[0] == "send")
        # what the client wrote after its last HTTP request
        idx = out.rfind(b"\r\n\r\n")
        frames, problems = wire.decode_client_frames(out[idx + 4:] if idx >= 0 else out)
        if problems:
            return failed("torn_or_invalid_frames", "after a send that took %s s: %s" % (case["secs"], "; ".join(problems[:3])),
                          labels, True)
        bad = [r for r in tr.actions if r["result"] != "ok"]
        if bad:
            return failed("send_failed", "a send on an open connection raised: %s" % [(r["action"][0], r["result"]) for r in bad],
                          labels, True)
        got = [(f.opcode, f.payload) for f in frames]
        want = [(wire.BINARY, big.encode()), (wire.TEXT, b"after the slow one"), (wire.PONG, b"are you there"),
                (wire.TEXT, b"at the ping")]
        if got != want:
            return failed("message_missing_or_corrupted", "wire holds %s, expected %s" % (
                [(o, b[:16]) for o, b in got], [(o, b[:16]) for o, b in want]), labels, True)
        return held(labels, True)

    def run_case(self, case):
        if case.get("slow_send"):
            return self.run_slow_send(case)
        try:
            return self._run_case(case)
        except rc.SetupNotReady as error:
            from harness.runner import inconclusive
            return inconclusive("setup_not_ready", {"scn:" + case["scn"]})

    @staticmethod
    def _resume(case):
        return {"resume": case["resume"]} if case.get("resume") else {}

    def _run_case(self, case):
        scns = self.scenarios()
        scn = scns[case["scn"]]
        labels = {"scn:" + case["scn"]}
        sub = []
        if "preempt" in case:
            schedule = dict({"order": case["order"], "preempt": case["preempt"]}, **self._resume(case))
            out, bad = self.run_one(scn, schedule, labels, sub, "r")
            nontrivial = bool(out.taken)
            if bad:
                return failed(bad[0], bad[1], labels, nontrivial)
            return held(labels, nontrivial)
        first = case["first"]
        schedule = dict({"order": case["order"], "preempt": [first] if first else []}, **self._resume(case))
        out, bad = self.run_one(scn, schedule, labels, sub, "1", keep_log=bool(first and case.get("chain2")))
        took = bool(out.taken)
        if bad:
            return failed(bad[0], bad[1], labels, took)
        if first and not took:
            labels.add("vacuous_preemption")
            return held(labels, False)
        if first and case.get("chain2") and took:
            # "preempt, let the other thread run to its end, then hand over to a THIRD thread instead of
            # resuming the preempted one": a second preemption placed right after the thread switched
            # to has finished (three-actor races such as sender / pinger / closer)
            names = thread_names(scn)
            t = first[1]
            ends = [step for step, who, _ in out.log if who == t]
            # ... or has BLOCKED for the first time (queued up behind the preempted thread)
            stops = [step for (step, who, _), (_, who2, _) in zip(out.log, out.log[1:])
                     if step > first[0] and who == t and who2 != t]
            if ends:
                for end_t in sorted(set([ends[-1]] + stops[:1])):
                    resumed = next((who for step, who, _ in out.log if step == end_t + 1), None)
                    s2 = end_t + 1       # the first step of whoever resumes after t has finished / blocked
                    for u in names:
                        if u == t or u == resumed:
                            continue
                        out2, bad = self.run_one(scn, dict({"order": case["order"], "preempt": [first, [s2, u]]}, **self._resume(case)), labels, sub,
                                                 "c2:%d:%s" % (s2, u), keep_log=bool(case.get("chain3")))
                        if bad:
                            return failed(bad[0], bad[1], labels, True, sub[1:])
                        if not case.get("chain3") or len(out2.taken) < 2:
                            continue
                        # two threads are now queued up behind the first: a THIRD preemption at every later point where
                        # a thread is inside a write or at a lock / condition
                        for s3, who3, where3 in out2.log:
                            if s3 <= s2 or where3 not in IN_WRITE_POINTS:
                                continue
                            for v in names:
                                if v == who3:
                                    continue
                                out3, bad = self.run_one(scn, dict({"order": case["order"], "preempt": [first, [s2, u], [s3 - 1, v]]}, **self._resume(case)),
                                                         labels, sub, "c3:%d:%s" % (s3, v))
                                if bad:
                                    return failed(bad[0], bad[1], labels, True, sub[1:])
            return held(labels, took, sub[1:])
        if first and case.get("sweep2"):
            names = thread_names(scn)
            steps2 = range(first[0] + 1, out.steps)
            if case.get("sweep2_in"):
                out_l, bad = self.run_one(scn, schedule, labels, sub, "1l", keep_log=True)
                steps2 = [s3 - 1 for s3, _, wh in out_l.log if s3 > first[0] + 1 and (
                    wh in IN_WRITE_POINTS or (isinstance(wh, tuple) and wh[0].endswith(case["sweep2_in"])))]
            for s2 in steps2:
                for t2 in names:
                    out2, bad = self.run_one(scn, dict({"order": case["order"], "preempt": [first, [s2, t2]]}, **self._resume(case)), labels, sub,
                                             "2:%d:%s" % (s2, t2))
                    if bad:
                        return failed(bad[0], bad[1], labels, True, sub[1:])
            return held(labels, took, sub[1:])
        return held(labels, took)


def baseline_log_for(prop, name, order):
    key = (prop.id, name, tuple(order))
    if key not in _BASE:
        try:
            _BASE[key] = rc.run_schedule(prop.scenarios()[name], {"order": list(order), "preempt": []}, keep_log=True).log
        except rc.SetupNotReady:
            _BASE[key] = []
    return _BASE[key]


def _w(where):
    import os
    if isinstance(where, tuple):
        return "%s:%d" % (os.path.basename(where[0]), where[1])
    return str(where)


PROP = C11()
