"""Shared machinery of C11 and C12: scheduled multi-thread scenarios."""
import gc
import os
import struct

from harness import boot, build, simnet, wire, httpref, deflateref
from harness import sched as schedmod
from harness.sched import Scheduler, SchedLock
from props.c04 import deflate_reply

B = wire.build_frame
TEXT_BODY = " the quick brown fox jumps over the lazy dog; the quick brown fox again and again"


def payload_for(thread, k):
    """Payloads of different senders share a long body (so that a deflate context mixed up between them matters) but
    differ in length and in what precedes the body (so that a back-reference computed in ONE sender's private history
    lands on different bytes in the real wire history)."""
    filler = thread.lower() * (3 + (ord(thread[0]) * 7 + k * 3) % 11) + "/" + str(k) * (k + 1)
    return "%s-%d:%s%s" % (thread, k, filler, TEXT_BODY)


def big_payload(thread, k, n):
    """An n-character ASCII payload that hardly compresses (hex of a SHA-256 stream), tagged with its sender."""
    import hashlib
    out = []
    c = 0
    while sum(len(x) for x in out) < n:
        out.append(hashlib.sha256(("%s:%d:%d" % (thread, k, c)).encode()).hexdigest())
        c += 1
    return ("%s-%d:" % (thread, k) + "".join(out))[:n]


def do_call(ws, call):
    kind = call[0]
    if kind == "send_text":
        ws.send_text(call[1])
    elif kind == "send_text_raw":
        ws.send_text(call[1], compress=False)
    elif kind == "send_binary":
        ws.send_binary(call[1].encode("utf-8"))
    elif kind == "send_binary_hex":
        ws.send_binary(bytes.fromhex(call[1]))
    elif kind == "send_ping":
        ws.send_ping(call[1].encode("utf-8"))
    elif kind == "send_pong":
        ws.send_pong(call[1].encode("utf-8"))
    elif kind == "close":
        ws.close(call[1], call[2])
    else:
        raise ValueError(kind)


class Outcome(object):
    pass


class SetupNotReady(Exception):
    """The scenario's (conforming) handshake did not give Ready."""


_RUNS = [0]


def run_schedule(scn_def, schedule, keep_log=False):
    """Run one scheduled execution.

    scn_def = {"deflate": bool, "threads": {name: [calls]}, "loop": None | {"bytes": hex, "idle_waits": n},
               "copts": {...}}
    Returns an Outcome with the wire bytes written after the HTTP request, per-thread call
    results, the preemptions that took effect and the number of steps.
    """
    deflate = scn_def.get("deflate", False)
    loop = scn_def.get("loop")
    reply = None
    if deflate:
        reply = httpref.canonical_spec(extensions=[scn_def.get("extension", "permessage-deflate")])
    script = [["wait_request"], ["stream", [["reply", reply]], "whole", 0.0]]
    if loop and loop.get("bytes"):
        script.append(["stream", [["bytes", bytes.fromhex(loop["bytes"])]], "whole", 0.0])
    copts = dict(scn_def.get("copts", {"ping_rate": 0}))
    sched = Scheduler(schedule, os.path.join(boot.REPO, "lomond"))
    sched.keep_log = keep_log
    idle = {"n": 0}

    def idle_hook(sim):
        w = sched.current_worker()
        if w is None:
            raise simnet.HarnessHorizon("idle during set-up")
        idle["n"] += 1
        if idle["n"] > (loop or {}).get("idle_waits", 0):
            sched.park()

    def send_hook(sim, st, data):
        # the socket write itself happens in two steps
        half = len(data) // 2
        sim.log_op("send", st, data[:half])
        st.note_write(data[:half])
        sched.yield_point("sendall.mid")
        sim.log_op("send", st, data[half:])
        st.note_write(data[half:])

    scn = build.scenario(script, ws_opts={"compress": True} if deflate else None, connect_opts=copts)
    scn["_idle_hook"] = idle_hook
    out = Outcome()
    simnet.install()
    schedmod.install_threading_shim()
    sim = simnet.Sim(scn)
    simnet.CURRENT = sim
    schedmod.ACTIVE = sched
    # scheduled runs use the library's OWN masking-key source (the oracle unmasks with the key found in each frame),
    # so that the code behind it is executed - and preempted - like the rest of a send
    import lomond.frame
    sim_masking = lomond.frame.make_masking_key
    if simnet.ORIG_MAKE_MASKING_KEY is not None:
        lomond.frame.make_masking_key = simnet.ORIG_MAKE_MASKING_KEY
    try:
        ws = simnet.make_ws(scn)
        gen = ws.connect(**copts)
        names = []
        while True:
            ev = next(gen)
            names.append(ev.name)
            if ev.name == "connected":
                # what the application did BEFORE the opening handshake finished (on the loop's thread, unscheduled):
                # the scheduled part then starts from the state that leaves behind
                for call in scn_def.get("at_connected", ()):
                    try:
                        do_call(ws, call)
                    except simnet.HarnessSignal:
                        raise
                    except Exception:
                        pass
            if ev.name == "ready":
                break
            if ev.name in ("connect_fail", "disconnected"):
                # (on a tree where the handshake of this scenario is refused that is some other property's violation:
                # the scheduled properties have nothing to say about it)
                raise SetupNotReady("set-up did not reach Ready: %s" % names)
        import _thread
        if isinstance(ws.session._lock, _thread.LockType):
            # a real lock (created before the scheduler was active) would block the whole process; whatever ELSE the
            # library uses as its write lock is built from the shimmed primitives and stays under test
            ws.session._lock = SchedLock(sched)
        scn["_send_hook"] = send_hook
        mark = len(sim.log)
        results = {}

        def make_worker(name, calls):
            def fn():
                res = results.setdefault(name, [])
                for call in calls:
                    try:
                        do_call(ws, call)
                        res.append((call, "ok", None))
                    except simnet.HarnessSignal:
                        raise
                    except Exception as error:
                        res.append((call, type(error).__name__, [c.__name__ for c in type(error).__mro__]))
            return fn

        # cyclic garbage from earlier runs must not be finalised at an arbitrary moment
        # inside a traced worker (Parser.__del__ runs lomond code = extra steps): an
        # execution has to be a pure function of the schedule
        gc.disable()
        for name, calls in scn_def["threads"].items():
            sched.spawn(name, make_worker(name, calls))
        loop_events = []
        loop_marks = []       # (event name, data, length of the wire log when the event was handed to the consumer)
        if loop is not None:
            react = loop.get("react") or {}

            def loop_fn():
                res = results.setdefault("loop", [])
                for ev in gen:
                    loop_events.append(ev.name)
                    loop_marks.append((ev.name, getattr(ev, "data", None), len(sim.log)))
                    if ev.name in react and react[ev.name][0] == "abandon":
                        # the consumer stops iterating at this event: gen.close() / drops the generator (the loop's
                        # clean-up then runs on this thread, under the scheduler)
                        res.append((list(react[ev.name]), "abandoned", None))
                        if react[ev.name][1] == "gen_close":
                            gen.close()
                        out.abandoned_with = react[ev.name][1]
                        return
                    if ev.name in react:
                        # the application's handler on the event-loop thread reacts to the event
                        call = list(react[ev.name])
                        if call[0] in ("send_text", "send_binary") and hasattr(ev, "data"):
                            call[1] = call[1] + ev.data.decode("latin-1")
                        try:
                            do_call(ws, call)
                            res.append((call, "ok", None))
                        except simnet.HarnessSignal:
                            raise
                        except Exception as error:
                            res.append((call, type(error).__name__, [c.__name__ for c in type(error).__mro__]))
            sched.spawn("loop", loop_fn)
        sched.run()
        out.wire = b"".join(e[2] for e in sim.log[mark:] if e[0] == "send")
        if scn_def.get("at_connected"):
            # frames written before Ready (after the upgrade request) belong to the connection's wire history
            early = wire.split_http(b"".join(e[2] for e in sim.log[:mark] if e[0] == "send"))[1]
            out.wire = early + out.wire
        out.results = results
        out.loop_events = list(loop_events)
        out.loop_marks = list(loop_marks)
        out.send_log = [(i, e[2]) for i, e in enumerate(sim.log) if i >= mark and e[0] == "send"]
        out.socks = [(st.sid, st.closed, st.shutdown_called, st.finalised, st.broken) for st in sim.socks]
        out.selectors_open = [x for x in sim.selectors if not x[2]]
        out.taken = list(sched.taken)
        out.vacuous = list(sched.vacuous)
        out.steps = sched.step
        out.aborted = sched.aborted
        out.states = {n: w.state for n, w in sched.workers.items()}
        out.errors = {n: w.error for n, w in sched.workers.items() if w.error}
        out.log = sched.log
        alive = sched.teardown()
        out.leaked_threads = alive
        try:
            gen.close()
        except BaseException:
            pass
    finally:
        scn.pop("_send_hook", None)
        scn.pop("_idle_hook", None)
        lomond.frame.make_masking_key = sim_masking
        simnet.CURRENT = None
        schedmod.ACTIVE = None
        gc.enable()
        _RUNS[0] += 1
        if _RUNS[0] % 200 == 0:
            gc.collect()
    return out


def schedules_for(scn_def, bound, max_first=None):
    """Enumerate cases {"scn": i, "order": [...], "first": [s, t] | None}; a case with a
    first preemption also sweeps every second preemption when bound == 2."""
    names = list(scn_def["threads"]) + (["loop"] if scn_def.get("loop") is not None else [])
    import itertools
    for order in itertools.permutations(names):
        yield list(order), None
        if bound >= 1:
            for s in range(0, max_first or 400):
                for t in names:
                    yield list(order), [s, t]
