"""C13 - abandoning the event loop at any event releases the socket."""
import copy
import gc

from hypothesis import strategies as st

from harness import build, gen, simnet
from harness.runner import Prop, held, failed
from props.c09 import base_script, PROXY_200

MECHANISMS = ("break", "raise", "gen_close", "with_exit", "with_exit_long_text", "gen_close_other_thread", "drop_in_other_thread")


def _closed_by_library(st, tunnel_refused=False):
    """"the library closes the TCP socket": close() must have been CALLED.  Only on a connection
    that was reset (where shutdown() fails with ENOTCONN and lomond skips close()), that never
    connected, or whose proxy refused the tunnel (the attempt never got as far as Connected; lomond
    drops that socket and CPython releases the descriptor as soon as the abandoned generator is
    finalised) is finalisation of the socket object accepted instead."""
    if st.closed:
        return True
    return st.finalised and (st.broken or not st.connected or tunnel_refused)


# what a proxy may answer instead of bringing the tunnel up (bytes, how the connection to it ends)
PROXY_REFUSALS = [(b"HTTP/1.1 407 Proxy Authentication Required\r\nProxy-Authenticate: Basic realm=\"x\"\r\n\r\n", "eof"),
                  (b"HTTP/1.1 502 Bad Gateway\r\n\r\n", "eof"), (b"HTTP/1.1 200 Connection est", "eof"), (b"", "eof"),
                  (b"HTTP/1.1 403 Forbidden\r\n\r\n", "reset"), (b"\x15\x03\x01\x00\x02\x02\x28" + b"x" * 40 + b"\r\n\r\n", "eof")]


def scenario_for(case, abandon_at=None, mech=None):
    refusal = None
    if case.get("proxy") and case.get("proxy_refuses") is not None:
        refusal = PROXY_REFUSALS[case["proxy_refuses"] % len(PROXY_REFUSALS)]
    script, pre, post = base_script(case, proxy_override=refusal)
    reactions = copy.deepcopy(case["sends"])
    if case["client_close"] is not None:
        reactions.append({"when": ["msg", case["client_close"]], "do": [["close", 1000, "cli"]]})
    if abandon_at is not None:
        # placed first so that the abandonment wins over other reactions at that event
        reactions.insert(0, {"when": ["index", abandon_at], "do": [[mech]]})
    copts = {"poll": 1.0, "ping_rate": 1.0 if case["idle"] else 0, "close_timeout": 5.0}
    if case.get("ping_timeout"):
        copts["ping_timeout"] = 1.5
    att = {}
    if case.get("send_fault"):
        # one write after the request fails (the application's own send, an automatic pong or ping, a Close)
        att["faults"] = {"send": {str(case["send_fault"][0]): case["send_fault"][1]}}
    if case.get("tls"):
        url = "wss://example.test/"
    else:
        url = build.URL
    kw = {}
    if case.get("proxy"):
        kw["ws_opts"] = {"proxies": {"http": "http://proxy.test:3128", "https": "http://proxy.test:3128"}}
    return build.scenario(script, url=url, reactions=reactions, connect_opts=copts, attempt_extra=att,
                          horizon=2000.0, **kw)


# ---- scheduled stage: the consumer abandons the loop WHILE ANOTHER THREAD IS INSIDE A SEND on the same connection (the
# write lock is then held by that thread): deterministic scheduler of C11, every thread order x every single preemption
def _sched_scenarios():
    from harness import wire
    from props import racecommon as rc
    text = rc.B(wire.TEXT, b"stop here").hex()
    P = rc.payload_for
    return {
        "abandon_vs_sender": {"deflate": False, "threads": {"B": [["send_text", P("B", 0)]]},
                              "loop": {"bytes": text, "idle_waits": 0, "react": {"text": ["abandon", "gen_close"]}},
                              "copts": {"ping_rate": 0}},
        "abandon_vs_large_sender_deflate": {"deflate": True, "threads": {"B": [["send_binary", rc.big_payload("B", 0, 70000)]]},
                                            "loop": {"bytes": text, "idle_waits": 0, "react": {"text": ["abandon", "gen_close"]}},
                                            "copts": {"ping_rate": 0}},
        "abandon_vs_sender_and_pinger": {"deflate": False, "threads": {"B": [["send_text", P("B", 0)]], "C": [["send_ping", "C-0:ping"]]},
                                         "loop": {"bytes": text, "idle_waits": 0, "react": {"text": ["abandon", "gen_close"]}},
                                         "copts": {"ping_rate": 0}},
    }


def _sched_judge(scn, out):
    if out.aborted:
        return "hang", out.aborted
    if out.leaked_threads:
        return "harness", "threads did not unwind: %s" % out.leaked_threads
    for name, err in out.errors.items():
        return "escaped_exception", "thread %s: %r" % (name, err)
    for name, st_ in out.states.items():
        if st_ not in ("done", "parked"):
            return "deadlock", "thread %s ended in state %s" % (name, st_)
    for name, res in out.results.items():
        for call, result, mro in res:
            if result not in ("ok", "abandoned") and "WebSocketError" not in (mro or []):
                return "send_error_not_websocket_error", "thread %s: %s raised %s" % (name, call[0], result)
    if getattr(out, "abandoned_with", None) is None:
        return None      # the loop ended before the consumer got the event
    for sid, closed, shutdown, finalised, broken in out.socks:
        if not (closed or (finalised and broken)):
            return "socket_leaked_while_another_thread_sends", (
                "the consumer abandoned the loop (%s) while another thread was using the connection: socket %d was "
                "never close()d (shutdown called: %s)" % (out.abandoned_with, sid, shutdown))
    if out.selectors_open:
        return "selector_leaked", "selector not closed after the abandonment"
    return None


class C13(Prop):
    id = "C13"
    level = "fault_enumeration"
    rule = ("for each generated base scenario (messages, pings, idle periods giving top-of-loop Polls, ping timeout giving "
            "Unresponsive, closing handshakes, plain or TLS-wrapped socket, optionally one failing write) the unabandoned run is recorded, then the consumer "
            "abandons the loop at EVERY event index by each of seven mechanisms (break = generator dropped, handler raises, "
            "gen.close(), exception leaving a with-block, gen.close() called by ANOTHER thread, last reference dropped on another "
            "thread); all harness references to the generator are dropped and the socket and "
            "(if created) the selector must be released while the WebSocket object is still alive. Non-trivial = abandonment after "
            "Connected. Each abandonment is one evaluation.")
    assumptions = ("socket released = close() was called on it (finalisation alone counts only after a reset, where "
                   "shutdown() fails and lomond skips close()); selector released = its close() called",
                   "CPython reference counting finalises a dropped generator at once (gc.collect() is run before a leak is reported)")
    examples = {"quick": 320, "thorough": 8000}

    def strategy(self, tier):
        small = gen.weighted([(3, gen.data_msg(big=False)), (3, gen.control_msg(("ping",))), (1, gen.control_msg(("pong",)))])
        sends = st.lists(st.fixed_dictionaries({
            "when": st.one_of(st.just(["event", "ready", 0]), st.tuples(st.just("msg"), st.integers(0, 5)).map(list)),
            "do": st.lists(st.sampled_from([["send_text", "app"], ["ping", "70"]]), min_size=1, max_size=1)}), max_size=1)
        return st.fixed_dictionaries({
            "msgs": st.lists(small, max_size=4),
            "msgs2": st.lists(small, max_size=2),
            "idle": st.booleans(),
            "ping_timeout": st.booleans(),
            "tls": gen.weighted([(3, st.just(False)), (1, st.just(True))]),
            "proxy": gen.weighted([(4, st.just(False)), (1, st.just(True))]),      # through an HTTP proxy (CONNECT)
            # ... which may refuse the tunnel (the attempt then ends in ConnectFail)
            "proxy_refuses": gen.weighted([(2, st.none()), (1, st.integers(0, len(PROXY_REFUSALS) - 1))]),
            "sends": sends,
            "client_close": st.one_of(st.none(), st.none(), st.integers(0, 3)),
            "server_close": gen.weighted([(3, st.just(False)), (1, st.just(True))]),
            "end": st.sampled_from(["eof", "reset"]),
            "seg": st.sampled_from(["whole", ["uniform", 9]]),
            # the k-th sendall after the handshake request fails: the loop is then abandoned after a failed write too
            "send_fault": st.one_of(st.none(), st.none(), st.tuples(st.integers(1, 4), st.sampled_from(
                ["timeout", "oserror", "exc", "reset"])).map(list)),
            # an earlier connection in this process (same WebSocket object or another) and how it ended
            "prelude": gen.prelude(6),
            # constructor arguments that only shape the upgrade request
            "wsopts_noise": gen.wsopts_noise(),
            # a second live connection in the same process (interleaved with this one, or blocked in a send)
            "companion": gen.companion(15),
        })

    def enumerations(self, tier):
        from props.c11 import C11
        from harness.runner import Enumeration

        class _Sched(C11):
            id = "C13"

            def scenarios(self_inner):
                return _sched_scenarios()

            def judge(self_inner, scn, out):
                return _sched_judge(scn, out)

            def bound2(self_inner):
                return []

            def first_use(self_inner):
                return []
        self._sched = _Sched()
        inner = self._sched.enumerations(tier)[0]

        def cases():
            for c in inner.make():
                yield dict(c, sched=True)
        from harness.runner import after_every_prelude
        ping = {"kind": "ping", "payload": ["hex", "7071"], "forms": [0]}
        text = {"kind": "text", "payload": ["str", "srv \u20ac"], "forms": [0], "frag": [2]}
        battery = [{"msgs": [text, ping], "msgs2": [text], "idle": True, "ping_timeout": False, "tls": False, "proxy": False,
                    "sends": [{"when": ["event", "ready", 0], "do": [["send_text", "app"]]}], "client_close": None,
                    "server_close": False, "end": "eof", "seg": "whole", "send_fault": None}]
        def refusals():
            for k in range(len(PROXY_REFUSALS)):
                for tls in (False, True):
                    for b in battery:
                        yield dict(b, proxy=True, proxy_refuses=k, tls=tls)
        return [Enumeration("abandoned_while_another_thread_is_inside_a_send", cases, exhaustive=True),
                Enumeration("every_abandonment_when_the_proxy_refuses_the_tunnel", refusals, exhaustive=True),
                after_every_prelude(battery, "every_abandonment_after_every_kind_of_earlier_connection")]

    def run_case(self, case):
        if case.get("sched"):
            if not hasattr(self, "_sched"):
                self.enumerations("quick")
            inner = dict(case)
            inner.pop("sched")
            return self._sched.run_case(inner)
        base = simnet.run_scenario(scenario_for(case))
        names = base.names()
        labels = set()
        sub = []
        if base.hang or base.escaped:
            return failed("hang" if base.hang else "escaped_exception", base.hang or base.escaped, labels, False)
        # classify Poll yield sites of the fault-free run: a Poll directly after a
        # selector timeout comes from the top of the loop, the others from message dispatch
        for i, name in enumerate(names):
            for mech in MECHANISMS:
                tr = simnet.run_scenario(scenario_for(case, i, mech))
                after_connected = "connected" in names[:i + 1]
                sub.append(("%d:%s" % (i, mech), after_connected))
                if tr.names() != names[:i + 1]:
                    # the same scenario took another course (behaviour that depends on earlier executions is some
                    # other property's business): judge the abandonment only if it took place at all
                    labels.add("inconclusive:run_differs_from_unabandoned_run")
                    if not str(tr.ended).startswith("abandon"):
                        continue
                site = name
                if name == "poll" and i > 0 and names[i - 1] in ("poll", "ready") and tr.events[i]["t"] > tr.events[i - 1]["t"]:
                    site = "poll(top of loop)"
                labels.add("at:%s" % site)
                labels.add("mech:" + mech)
                if tr.hang:
                    return failed("hang", "abandoning by %s at event %d (%s): %s" % (mech, i, name, tr.hang),
                                  labels, after_connected, sub)
                if getattr(tr, "abandon_error", None):
                    return failed("abandon_raised", "abandoning by %s at event %d (%s) raised %s" % (
                        mech, i, name, tr.abandon_error), labels, after_connected, sub)
                sim = tr.sim
                refused = bool(case.get("proxy") and case.get("proxy_refuses") is not None)
                if refused:
                    labels.add("proxy_refuses_the_tunnel")
                leaked = [s for s in sim.socks if not _closed_by_library(s, refused)]
                open_sel = [s for s in sim.selectors if not s[2]]
                if leaked or open_sel:
                    gc.collect()
                    leaked = [s for s in sim.socks if not _closed_by_library(s, refused)]
                    open_sel = [s for s in sim.selectors if not s[2]]
                if leaked:
                    sig = "socket_leaked_at_" + site.split("(")[0]
                    return failed(sig, "consumer stopped by %s at event %d (%s, site %s): socket neither closed nor "
                                  "finalised while the WebSocket object is alive; events %s" % (
                                      mech, i, name, site, names[:i + 1]), labels, after_connected, sub)
                if open_sel:
                    return failed("selector_leaked", "consumer stopped by %s at event %d (%s): selector not closed" % (
                        mech, i, name), labels, after_connected, sub)
                ws = tr.ws   # keep the WebSocket alive until after the checks
                del tr, ws
        # the generator is kept alive while the SAME WebSocket object connects again, and is only
        # finalised afterwards: the first connection's socket must still be closed by its own loop
        second = {"script": [["wait_request"]] + ([["stream", [["bytes", PROXY_200]], "whole", 0.0], ["wait_requests", 2]]
                                                  if case.get("proxy") else []) +
                  [["stream", [["reply", None]], "whole", 0.0], ["eof", 0.5]]}
        for i, name in enumerate(names):
            if name == "connecting" or i == len(names) - 1:
                continue
            scn = scenario_for(case, i, "hold")
            scn["attempts"] = [scn["attempts"][0], second]
            scn["attempts"][0]["reactions"] = scn.pop("reactions")
            scn["attempts"][1]["reactions"] = []
            traces = simnet.run_chain(scn)
            sub.append(("%d:hold+reconnect" % i, True))
            labels.add("mech:hold_then_reconnect")
            first = traces[0]
            sim = first.sim
            if first.hang or traces[1].hang:
                return failed("hang", first.hang or traces[1].hang, labels, True, sub)
            first.held = None          # now the abandoned generator is finalised
            traces[0] = None
            del first
            mine = [s0 for s0 in sim.socks if s0.attempt is scn["attempts"][0]]     # the abandoned connection's sockets
            leaked = [s0 for s0 in mine if not _closed_by_library(s0)]
            if leaked:
                gc.collect()
                leaked = [s0 for s0 in mine if not _closed_by_library(s0)]
            if leaked:
                return failed("socket_leaked_after_reconnect",
                              "loop abandoned at event %d (%s) with the generator kept alive, the same WebSocket connected "
                              "again, then the old generator was dropped: socket %s of the first connection was never "
                              "closed" % (i, name, [s0.sid for s0 in leaked]), labels, True, sub)
        labels.add(("abandonments", len(sub)))
        return held(labels, False, sub)


PROP = C13()
