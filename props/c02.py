"""C02 - the event stream does not depend on how TCP segments the byte stream."""
import itertools
import struct

from hypothesis import strategies as st

from harness import build, gen, simnet, wire, httpref, deflateref
from harness.runner import Prop, Enumeration, held, failed
from props.c01 import effective_seg
from props.c04 import deflate_reply, violating_frames, CLASSES


def observe(tr):
    """What the application observes: events with payloads (Poll excluded: a function
    of time, not bytes) and the bytes the client wrote."""
    evs = []
    for e in tr.events:
        if e["name"] == "poll":
            continue
        evs.append(tuple(sorted((k, repr(v)) for k, v in e.items() if k != "t")))
    return evs, tr.sim.client_bytes()


def run_stream(reply, data, seg, deflate, reactions=None, tls=None):
    scn = build.scenario(
        [["wait_request"], ["stream", [["reply", reply], ["bytes", data]], seg, 0.0], ["eof", 0.0]],
        ws_opts={"compress": True} if deflate else None, reactions=reactions,
        connect_opts={"ping_rate": 0}, url="wss://example.test/" if tls else build.URL,
        attempt_extra={"record": tls["record"], "tls_eager": bool(tls.get("eager"))} if tls else None)
    return simnet.run_scenario(scn)


def diff(a, b):
    ea, wa = a
    eb, wb = b
    for i in range(max(len(ea), len(eb))):
        x = ea[i] if i < len(ea) else None
        y = eb[i] if i < len(eb) else None
        if x != y:
            return "event %d differs: whole-read run %s / segmented run %s" % (i, _short(x), _short(y))
    if wa != wb:
        i = next((i for i in range(min(len(wa), len(wb))) if wa[i] != wb[i]), min(len(wa), len(wb)))
        return "client wrote different bytes (first difference at offset %d; %d vs %d bytes)" % (i, len(wa), len(wb))
    return None


def _short(x):
    s = repr(x)
    return s if len(s) < 300 else s[:300] + "..."


def catalogue():
    """Short post-handshake streams: (name, deflate, bytes)."""
    B = wire.build_frame
    euro = "€".encode("utf-8")
    out = [
        ("text", 0, B(wire.TEXT, b"Hi")),
        ("binary", 0, B(wire.BINARY, b"\x00\xff\x7f")),
        ("ping", 0, B(wire.PING, b"pp")),
        ("pong", 0, B(wire.PONG, b"q")),
        ("close_1000", 0, B(wire.CLOSE, struct.pack("!H", 1000) + b"x")),
        ("close_empty", 0, B(wire.CLOSE, b"")),
        ("text_3byte_char", 0, B(wire.TEXT, euro)),
        ("text_4byte_char", 0, B(wire.TEXT, "😀".encode("utf-8"))),
        ("text_char_split_over_fragments", 0, B(wire.TEXT, euro[:2], fin=0) + B(wire.CONT, euro[2:])),
        ("ping_between_fragments", 0, B(wire.TEXT, b"a", fin=0) + B(wire.PING, b"") + B(wire.CONT, b"b")),
        ("nonminimal_16", 0, B(wire.TEXT, b"ab", form=16)),
        ("nonminimal_64", 0, B(wire.BINARY, b"ab", form=64)),
        # payloads that look like what the handshake parser waits for
        ("text_is_header_terminator", 0, B(wire.TEXT, b"\r\n\r\n")),
        ("binary_terminator_pieces", 0, B(wire.BINARY, b"\n\r\n\r\n\r")),
        ("text_then_binary", 0, B(wire.TEXT, b"a") + B(wire.BINARY, b"b")),
        ("empty_text_empty_binary", 0, B(wire.TEXT, b"") + B(wire.BINARY, b"")),
        ("empty_fragments", 0, B(wire.TEXT, b"", fin=0) + B(wire.CONT, b"", fin=0) + B(wire.CONT, b"x")),
        ("ping_then_text", 0, B(wire.PING, b"pp") + B(wire.TEXT, b"a")),
        ("two_pings_close", 0, B(wire.PING, b"1") + B(wire.PING, b"2") + B(wire.CLOSE, b"")),
        ("close_then_text", 0, B(wire.CLOSE, struct.pack("!H", 1000)) + B(wire.TEXT, b"a")),
        ("incomplete_frame", 0, B(wire.TEXT, b"abcde")[:4]),
        ("incomplete_header", 0, B(wire.TEXT, b"a") + b"\x81"),
        ("incomplete_ext_len", 0, B(wire.BINARY, b"\0" * 300)[:3]),
        ("v_reserved_opcode", 0, b"\x83\x00" + B(wire.TEXT, b"a")),
        ("v_rsv1", 0, b"\xc1\x01a" + B(wire.TEXT, b"b")),
        ("v_fragmented_ping", 0, b"\x09\x00" + B(wire.TEXT, b"b")),
        ("v_masked", 0, B(wire.TEXT, b"a", mask=b"\x01\x02\x03\x04") + B(wire.TEXT, b"b")),
        ("v_cont_nothing", 0, B(wire.CONT, b"a") + B(wire.TEXT, b"b")),
        ("v_text_in_text", 0, B(wire.TEXT, b"a", fin=0) + B(wire.TEXT, b"b")),
        ("v_close_1_byte", 0, B(wire.CLOSE, b"\x03") + B(wire.TEXT, b"b")),
        ("v_close_bad_code", 0, B(wire.CLOSE, struct.pack("!H", 1005)) + B(wire.TEXT, b"b")),
        ("v_close_bad_utf8", 0, B(wire.CLOSE, struct.pack("!H", 1000) + b"\xff")),
        ("v_bad_utf8", 0, B(wire.TEXT, b"\xff") + B(wire.TEXT, b"b")),
        ("v_bad_utf8_2", 0, B(wire.TEXT, b"a\xc3\x28b")),
        ("v_bad_utf8_truncated", 0, B(wire.TEXT, b"\xe2\x82") + B(wire.TEXT, b"b")),
        ("v_bad_utf8_in_fragment", 0, B(wire.TEXT, b"\xe2", fin=0) + B(wire.CONT, b"\x28\xa1")),
        ("v_len_2^63", 0, B(wire.BINARY, b"ab", form=64, declared_len=1 << 63)),
        ("v_control_too_long", 0, B(wire.PING, b"", form=16, declared_len=126) + b"xyz"),
        ("garbage", 0, bytes.fromhex("ff00ff00deadbeef")),
        ("d_uncompressed_text", 1, B(wire.TEXT, euro)),
        ("d_compressed_text", 1, B(wire.TEXT, deflateref.Peer().compress(b"aaaaaaaa"), rsv1=1)),
        ("d_compressed_empty", 1, B(wire.TEXT, b"\x00", rsv1=1) + B(wire.TEXT, b"a")),
        ("d_compressed_fragmented", 1, (lambda c: B(wire.BINARY, c[:2], rsv1=1, fin=0) + B(wire.CONT, c[2:]))(
            deflateref.Peer().compress(b"abcabcabc"))),
        ("d_compressed_bad_utf8", 1, B(wire.TEXT, deflateref.Peer().compress(b"\xff\xfe"), rsv1=1)),
        ("d_bad_deflate", 1, B(wire.BINARY, b"\xff\xff\xff", rsv1=1) + B(wire.TEXT, b"a")),
        ("d_rsv2", 1, b"\xa1\x01a"),
        ("d_stored_block", 1, B(wire.TEXT, deflateref.stored_payload(7)[0], rsv1=1)),
    ]
    return out


CATALOGUE = None


def get_catalogue():
    global CATALOGUE
    if CATALOGUE is None:
        CATALOGUE = catalogue()
    return CATALOGUE


_REF_CACHE = {}


class C02(Prop):
    id = "C02"
    level = "exploration"
    rule = ("metamorphic: the same server byte stream delivered in one read per 64 KiB ('whole') and under a second "
            "segmentation must give the same events (with payloads; Poll/timestamps excluded, clock frozen) and the same "
            "client-written bytes. Streams: conforming sessions with/without permessage-deflate, streams with one injected "
            "violation, either with 0-3 random byte edits / truncation, and raw bytes after a valid handshake; application "
            "passive or reacting per message ordinal. Exhaustive part: a catalogue of short post-handshake streams "
            "(each opcode, length form, split character, fragment pair, violation class, deflate cases) under ALL cut sets "
            "(incl. the cut between reply and frames); the handshake reply (+ first frame) under all cut sets of size <= 2, "
            "every uniform chunk size and byte-wise. Non-trivial = the segmentations differ and a cut falls strictly inside "
            "the HTTP reply, a frame header/extended length or a frame payload.")
    assumptions = ("masking keys, handshake key and clock are harness-supplied, so raw client bytes are comparable",
                   "reads larger than 64 KiB never occur (the client's receive buffer size)")
    examples = {"quick": 2500, "thorough": 60000}

    # ---- generated -----------------------------------------------------------
    def strategy(self, tier):
        conforming = st.fixed_dictionaries({
            "src": st.just("conforming"),
            "msgs": st.lists(gen.message(big=True), max_size=6),
            "close": st.one_of(st.none(), gen.close_msg()),
            "deflate": st.booleans(),
            "compress_mask": st.integers(0, 63),
        })
        violating = st.fixed_dictionaries({
            "src": st.just("violating"),
            "msgs": st.lists(gen.message(big=False), max_size=4),
            "viol": st.fixed_dictionaries({"class": st.sampled_from(CLASSES), "a": st.integers(0, 20),
                                           "b": st.integers(0, 20), "wide": st.booleans()}),
            "suffix": st.lists(gen.message(big=False), max_size=2),
            "deflate": st.booleans(),
        })
        raw = st.fixed_dictionaries({
            "src": st.just("raw"),
            "raw": st.binary(max_size=60).map(lambda b: b.hex()),
            "deflate": st.booleans(),
        })
        bigreply = st.fixed_dictionaries({
            "src": st.just("bigreply"),
            "pad_to": st.one_of(st.integers(16370, 16400), st.sampled_from([16383, 16384, 16385, 16388, 20000])),
            "terminate": st.booleans(),
            "near_end_cut": st.integers(0, 12),
            "deflate": st.just(False),
        })
        edits = st.lists(st.tuples(st.sampled_from(["flip", "insert", "delete", "truncate"]),
                                   st.integers(0, 100000), st.integers(0, 255)).map(list), max_size=3)
        react = st.lists(st.fixed_dictionaries({
            "when": st.tuples(st.just("msg"), st.integers(0, 5)).map(list),
            "do": st.lists(st.one_of(
                st.just(["send_text", "reply-€"]), st.just(["send_binary", "00ff"]),
                st.just(["ping", "70"]), st.just(["close", 1000, "bye"])), min_size=1, max_size=2),
        }), max_size=2)
        tls = st.one_of(st.none(), st.none(), st.fixed_dictionaries({
            "record": st.sampled_from([1, 5, 100, 1024, 16384]), "eager": st.booleans()}))
        return st.tuples(st.one_of(conforming, conforming, violating, violating, raw, bigreply), edits, gen.segmentation(),
                         react, tls).map(
            lambda t: dict(t[0], edits=t[1] if t[0]["src"] in ("conforming", "violating") else [], seg=t[2], reactions=t[3],
                           tls=t[4]))

    def stream_of(self, case):
        deflate = case.get("deflate", False)
        regions = None
        if case["src"] == "raw":
            data = bytes.fromhex(case["raw"])
        elif case["src"] == "bigreply":
            data = wire.build_frame(wire.TEXT, b"after-the-reply")
        else:
            peer = deflateref.Peer()
            mask = case.get("compress_mask", 0)
            counter = [0]

            def deflater(payload, msg):
                return peer.compress(payload)
            msgs = []
            for i, m in enumerate(case["msgs"]):
                m = dict(m)
                if deflate and m["kind"] in ("text", "binary") and (mask >> (i % 6)) & 1:
                    m["compress"] = True
                msgs.append(m)
            if case.get("close"):
                msgs.append(case["close"])
            built = build.build_session(msgs, deflater if deflate else None)
            data = bytes(built.data)
            regions = built
            if case["src"] == "violating":
                data += violating_frames(dict(case["viol"]), deflate)
                data += bytes(build.build_session(case.get("suffix", [])).data)
        data = bytearray(data)
        for kind, pos, val in case.get("edits", []):
            if not data:
                break
            p = pos % len(data)
            if kind == "flip":
                data[p] ^= 1 << (val % 8)
            elif kind == "insert":
                data[p:p] = bytes([val])
            elif kind == "delete":
                del data[p]
            else:
                del data[p:]
        return bytes(data), regions

    def run_case(self, case):
        if "cat" in case:
            return self.run_catalogue(case)
        if "odd_reply" in case:
            return self.run_odd_reply(case)
        if "reply_cuts" in case:
            return self.run_reply(case)
        data, built = self.stream_of(case)
        deflate = case.get("deflate", False)
        reply = deflate_reply() if deflate else None
        if case["src"] == "bigreply":
            reply = dict(httpref.canonical_spec(), pad_to=case["pad_to"], terminate=case["terminate"])
        reply_len = len(httpref.build_reply(reply, b""))
        total = reply_len + len(data)
        seg = effective_seg(case["seg"], total)
        if case["src"] == "bigreply" and seg == "whole":
            # a cut shortly before the end of the header block is where a per-read
            # length check and a per-block one can disagree
            seg = ["cuts", [max(1, reply_len - case["near_end_cut"])]]
        reactions = case.get("reactions") or None
        labels = {"src:" + case["src"], "deflate" if deflate else "plain",
                  "seg:" + (seg if isinstance(seg, str) else seg[0])}
        if case.get("edits"):
            labels.add("edited")
        if reactions:
            labels.add("app_reacts")
        chunks = simnet.segment(b"\0" * total, seg)
        cuts = list(itertools.accumulate(len(c) for c in chunks))[:-1]
        inside = set()
        if any(0 < c < reply_len for c in cuts):
            inside.add("cut_in_http_reply")
        if built is not None and not case.get("edits"):
            inside |= build.classify_cuts(built, reply_len, cuts)
        elif any(c > reply_len for c in cuts):
            inside.add("cut_in_frames")
        labels |= inside
        nontrivial = len(chunks) > 1 and bool(inside)
        tls = case.get("tls")
        if tls:
            # reference: one huge record per arrival, whole reads; alternative: reads are additionally cut
            # at (small) record boundaries and sized by pending()
            labels.add("tls")
            if total // max(1, tls["record"]) > 4000:
                tls = dict(tls, record=total // 4000 + 1)
        ref = run_stream(reply, data, "whole", deflate, reactions, tls={"record": 1 << 20} if tls else None)
        alt = run_stream(reply, data, seg, deflate, reactions, tls=tls)
        runs = [(ref, "whole"), (alt, "segmented")]
        if built is not None and not case.get("edits") and not tls:
            # a third delivery: one read per frame (the reply, then every frame ends a read; frames beyond the 64 KiB
            # read size still take several reads).  Two deliveries that both put a frame boundary INSIDE a read can be
            # wrong in the same way; this one never does.
            ends = sorted({reply_len} | {reply_len + e for s_, e, what in built.regions if what in ("payload", "header")})
            frame_ends = [e for i, e in enumerate(ends)
                          if not any(what == "payload" and reply_len + s_ == e for s_, _e, what in built.regions)]
            aligned = run_stream(reply, data, ["cuts", frame_ends], deflate, reactions)
            runs.append((aligned, "one frame per read"))
            labels.add("third_delivery_frame_aligned")
        for tr, which in runs:
            if tr.hang:
                return failed("hang", "%s run: %s" % (which, tr.hang), labels, nontrivial)
            if tr.escaped:
                return failed("escaped_exception", "%s run: %s" % (which, tr.escaped), labels, nontrivial)
        why = diff(observe(ref), observe(alt))
        if not why and len(runs) > 2:
            why = diff(observe(ref), observe(runs[2][0]))
            if why:
                why = "whole reads vs one frame per read: " + why
        if why:
            return failed("segmentation_dependent", why, labels, nontrivial)
        return held(labels, nontrivial)

    # ---- exhaustive: all cut sets of short streams ------------------------------------
    def catalogue_cases(self, max_len):
        for idx, (name, deflate, data) in enumerate(get_catalogue()):
            n = len(data)
            if n > max_len:
                continue
            for bits in range(1 << n):     # bit i set = cut before frame byte i (i=0: after the reply)
                yield {"cat": idx, "bits": bits}

    def run_catalogue(self, case):
        name, deflate, data = get_catalogue()[case["cat"]]
        reply = deflate_reply() if deflate else None
        reply_len = len(httpref.build_reply(reply, b""))
        bits = case["bits"]
        cuts = [reply_len + i for i in range(len(data)) if (bits >> i) & 1]
        key = case["cat"]
        if key not in _REF_CACHE:
            _REF_CACHE[key] = observe(run_stream(reply, data, "whole", deflate))
        alt = run_stream(reply, data, ["cuts", cuts], deflate)
        labels = {"cat:" + name}
        nontrivial = any(c > reply_len for c in cuts)
        if alt.hang:
            return failed("hang", alt.hang, labels, nontrivial)
        if alt.escaped:
            return failed("escaped_exception", alt.escaped, labels, nontrivial)
        why = diff(_REF_CACHE[key], observe(alt))
        if why:
            return failed("segmentation_dependent", "stream %s (%s) cut at %s: %s" % (
                name, data.hex(), [c - reply_len for c in cuts], why), labels, nontrivial)
        return held(labels, nontrivial)

    # ---- exhaustive: the handshake reply ---------------------------------------------
    REPLY_TAILS = [("text", 0), ("ping_then_text", 0), ("d_compressed_text", 1), ("text_is_header_terminator", 0),
                   ("binary_terminator_pieces", 0)]

    def reply_cases(self):
        cat = {name: (deflate, data) for name, deflate, data in get_catalogue()}
        for tail, deflate in self.REPLY_TAILS:
            data = cat[tail][1]
            reply = deflate_reply() if deflate else None
            n = len(httpref.build_reply(reply, b"")) + len(data)
            for k in range(1, n + 1):
                yield {"reply_cuts": ["uniform", k], "tail": tail}
            for a in range(1, n):
                yield {"reply_cuts": ["cuts", [a]], "tail": tail}
            for a in range(1, n):
                for b in range(a + 1, n):
                    yield {"reply_cuts": ["cuts", [a, b]], "tail": tail}

    def run_reply(self, case):
        cat = {name: (deflate, data) for name, deflate, data in get_catalogue()}
        deflate, data = cat[case["tail"]]
        reply = deflate_reply() if deflate else None
        key = ("reply", case["tail"])
        if key not in _REF_CACHE:
            _REF_CACHE[key] = observe(run_stream(reply, data, "whole", deflate))
        alt = run_stream(reply, data, case["reply_cuts"], deflate)
        labels = {"reply:" + case["reply_cuts"][0]}
        if alt.hang:
            return failed("hang", alt.hang, labels, True)
        if alt.escaped:
            return failed("escaped_exception", alt.escaped, labels, True)
        why = diff(_REF_CACHE[key], observe(alt))
        if why:
            return failed("segmentation_dependent", "reply+%s under %s: %s" % (
                case["tail"], case["reply_cuts"], why), labels, True)
        return held(labels, True)

    # replies that are not a proper upgrade: whatever the client makes of them, it must not depend on the cuts
    ODD_REPLIES = [
        b"ICY 200 OK\r\nicy-name: radio\r\nContent-Type: audio/mpeg\r\n\r\n",
        b"\r\nHTTP/1.1 101 Switching Protocols\r\nUpgrade: websocket\r\nConnection: Upgrade\r\n\r\n",
        b"HTTP/1.1 404 Not Found\r\nContent-Length: 0\r\n\r\n",
        b"http/1.1 101 switching\r\nupgrade: websocket\r\n\r\n",
        b"SSH-2.0-OpenSSH_9.6\r\n\r\n",
        b"HTTP/1.1 101\r\n\r\n",
        b"\x16\x03\x01\x02\x00\r\nxx\r\n\r\n",
        b"HTTP/1.1 200 OK\r\n\r\n<html>\r\n\r\n</html>",
    ]

    def odd_reply_cases(self):
        for i, raw in enumerate(self.ODD_REPLIES):
            n = len(raw) + 4
            for k in range(1, n + 1):
                yield {"odd_reply": i, "reply_cuts": ["uniform", k]}
            for a in range(1, n):
                yield {"odd_reply": i, "reply_cuts": ["cuts", [a]]}

    def run_odd_reply(self, case):
        raw = self.ODD_REPLIES[case["odd_reply"]]
        reply = {"raw": raw.hex()}
        data = wire.build_frame(wire.TEXT, b"Hi")
        key = ("odd", case["odd_reply"])
        if key not in _REF_CACHE:
            _REF_CACHE[key] = observe(run_stream(reply, data, "whole", 0))
        alt = run_stream(reply, data, case["reply_cuts"], 0)
        labels = {"odd_reply:%d" % case["odd_reply"]}
        if alt.hang:
            return failed("hang", alt.hang, labels, True)
        if alt.escaped:
            return failed("escaped_exception", alt.escaped, labels, True)
        why = diff(_REF_CACHE[key], observe(alt))
        if why:
            return failed("segmentation_dependent", "reply %r under %s: %s" % (raw[:40], case["reply_cuts"], why), labels, True)
        return held(labels, True)

    def enumerations(self, tier):
        max_len = 12 if tier == "quick" else 16
        return [
            Enumeration("catalogue_all_cut_sets", lambda: self.catalogue_cases(max_len), exhaustive=True),
            Enumeration("reply_cut_sets_le2_and_uniform", self.reply_cases, exhaustive=True),
            Enumeration("replies_that_are_no_upgrade_under_every_single_cut", self.odd_reply_cases, exhaustive=True),
        ]

    def extra(self, tier, seed, acc):
        if tier != "thorough":
            return None
        from harness import fuzzstage
        return fuzzstage.run("c02", acc, seed)


PROP = C02()
