"""One module per property: props.cNN.PROP is a harness.runner.Prop."""
import importlib


def load(prop_id):
    mod = importlib.import_module("props." + prop_id.lower())
    return mod.PROP
