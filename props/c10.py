"""C10 - Ready is granted only for a correct upgrade reply to a well-formed request."""
import base64

from hypothesis import strategies as st

from harness import build, gen, simnet, wire, httpref
from harness.runner import Prop, Enumeration, held, failed, after_every_prelude, with_noise, with_companion, with_debug_log
from props.c01 import effective_seg

HOSTS = ["example.test", "EXAMPLE.Test", "a.b-c.example", "127.0.0.1", "localhost", "xn--bcher-kva.example",
         # IPv6 literals: in a URL, in a Host header (RFC 7230 5.4) and in an authority they are written in brackets
         "[::1]", "[2001:db8::7]"]
PATHS = ["", "/", "/chat", "/a/b%20c", "/p;x=1", "/deep/er/path/", "/%E2%82%AC"]
QUERIES = ["", "x=1", "a=b&c=d", "q=%E2%82%AC", "flag", "a=1&a=2"]
ACCEPT_KINDS = ["correct", "other_key", "no_guid", "swapcase", "lower", "upper", "one_case_flip", "one_char",
                "trunc:27", "trunc:20", "trunc:1", "nopad", "extra", "inner_space", "hex", "key_echo", "empty",
                "braced", "format_field",
                # the digest with non-ASCII bytes around it that a text decoder may turn into "white space": UTF-8 of
                # U+00A0 / U+2003 / U+3000, and the single bytes A0 (NBSP) and 85 (NEL) of ISO 8859-1
                "suffix:c2a0", "prefix:e28083", "suffix:e38080", "suffix:a0", "prefix:85"]
# wrong Upgrade values include characters that are special to str.format / % formatting / logging
UPGRADES = ["websocket", "WebSocket", "WEBSOCKET", "wEbSoCkEt", "h2c", "websocket2", "web socket", "websockets", "",
            "{websocket}", "websocket{}", "{0}", "%s%d", "h2c; profile={x}", "web\\socket",
            # non-ASCII look-alikes: KELVIN SIGN for "k" (lower-cases to "k"), U+017F for "s", and white space beyond SP/HTAB
            "websoc\xe2\x84\xaaet", "WEB\xc5\xbfOCKET", "websocket\xc2\xa0", "\xe3\x80\x80websocket", "websocket\xa0", "\x85websocket"]
# names of the two critical headers that are NOT those names although a lenient reading trims them to it
ODD_NAMES = ["Upgrade\xc2\xa0", "\xe2\x80\x83Upgrade", "Upgrade\xa0", "Sec-WebSoc\xe2\x84\xaaet-Accept", "Sec-WebSocket-Accept\xc2\xa0",
             "Sec-WebSocket-Accept\x85"]
# the accepted extension as the server may spell it (RFC 6455 9.1 takes its ABNF from RFC 2616: linear white space may
# surround ";" and "="); whatever the parameters, Ready reports the extension by its token
EXT_SPELLINGS = ["permessage-deflate", "permessage-deflate; server_no_context_takeover",
                 "permessage-deflate ; server_no_context_takeover", "permessage-deflate\t;client_max_window_bits=10",
                 "permessage-deflate;server_max_window_bits=12 ; client_no_context_takeover",
                 "permessage-deflate  ;  client_no_context_takeover  ;  server_no_context_takeover",
                 "permessage-deflate; client_max_window_bits = 12", 'permessage-deflate; server_max_window_bits="10"',
                 "permessage-deflate;", "permessage-deflate ;", "permessage-deflate; server_no_context_takeover;",
                 "permessage-deflate;client_no_context_takeover;server_max_window_bits=9;client_max_window_bits=9"]
DUP_NAMES = ["Upgrade", "upgrade", "UPGRADE", "uPgRaDe", "Sec-WebSocket-Accept", "sec-websocket-accept",
             "SEC-WEBSOCKET-ACCEPT", "Sec-Websocket-accept"]
REASONS = ["Switching Protocols", "", "OK", "Web Socket Protocol Handshake", "Forbidden", "x y z", "{}", "{0} %s {x!r}"]
STATUSES = [101, 101, 101, 101, 200, 100, 204, 301, 400, 403, 404, 426, 500, 503, 102, 1010, 10]
# status tokens that are NOT the three digits "101" although a lenient number parser reads 101 out of them, and
# separators other than SP (control characters that str.split() - unlike bytes.split() - treats as white space)
ODD_STATUSES = ["+101", "0101", "1_0_1", "101.0", "1e2", "-101", "101_"]
SEPS_BEFORE_STATUS = ["\x1f", "\x1c", " \x1d", "\x1e"]      # all leave the status token glued to something
SEPS_AFTER_STATUS = ["\x1f", "\x1c", "\x1e ", "\x1d"]
FRAME_AFTER = wire.build_frame(wire.TEXT, b"must-not-be-delivered-unless-ready")


USERINFO = [None, None, None, "bob", "bob:secret", "a%40b:p%3Aw", ":"]


def build_url(u):
    s = u["scheme"] + "://" + ((u["userinfo"] + "@") if u.get("userinfo") else "") + u["host"]
    if u["port"] is not None:
        s += ":%d" % u["port"]
    s += u["path"]
    if u["query"]:
        s += "?" + u["query"]
    return s


def reply_spec(r):
    """Turn the drawn reply description into an httpref spec."""
    headers = []
    odd = r.get("odd_name")       # one critical header goes under a name that only looks like it
    if r["upgrade"] is not None:
        headers.append([odd if odd and "pgrade" in odd else "Upgrade", r["upgrade"]])
    headers.append(["Connection", "Upgrade"])
    if r["accept"] != "missing":
        headers.append([odd if odd and "ccept" in odd else "Sec-WebSocket-Accept", "{accept:%s}" % r["accept"]])
    if r.get("protocol"):
        headers.append(["Sec-WebSocket-Protocol", r["protocol"]])
    for e in r.get("extensions", []):
        headers.append(["Sec-WebSocket-Extensions", e])
    for name, value in r.get("extra", []):
        headers.append([name, value])
    # a critical header REPEATED (any casing of its name) with another value: the field values combine
    # (RFC 7230 3.2.2), and the combination is neither "websocket" nor the digest
    for d in r.get("dups", []):
        value = "{accept:%s}" % d["value"] if d["name"].lower() == "sec-websocket-accept" else d["value"]
        idx = next((i for i, h in enumerate(headers) if h[0].lower() == d["name"].lower()), None)
        if idx is None:
            continue
        headers.insert(idx if d.get("first") else idx + 1, [d["name"], value])
    # permutation, casing, whitespace, folding
    order = r.get("order", [])
    for i, j in enumerate(order):
        if headers:
            a, b = i % len(headers), j % len(headers)
            headers[a], headers[b] = headers[b], headers[a]
    out = []
    for i, (name, value) in enumerate(headers):
        casing = r.get("casing", [0])[i % len(r.get("casing", [0]))]
        if casing == 1:
            name = name.lower()
        elif casing == 2:
            name = name.upper()
        elif casing == 3:
            name = name.swapcase()
        ows = r.get("ows", [[" ", ""]])[i % len(r.get("ows", [[" ", ""]]))]
        opts = {"pre": ows[0], "post": ows[1]}
        folds = r.get("folds", [])
        if folds and " " in value and i in [f % len(headers) for f in folds]:
            opts["folds"] = [0]
        fs = r.get("fold_start")
        if fs is not None and i in [f % len(headers) for f in (fs if isinstance(fs, list) else [fs])]:
            opts["pre"] = "\r\n" + (ows[0] or " ")
        out.append([name, value, opts])
    spec = {"status": r["status"], "reason": r.get("reason", "Switching Protocols"), "headers": out}
    for k in ("sep", "sep2"):
        if r.get(k, " ") != " ":
            spec[k] = r[k]
    if r.get("pad_to"):
        spec["pad_to"] = r["pad_to"]
    if r.get("terminate") is False:
        spec["terminate"] = False
    return spec


class C10(Prop):
    id = "C10"
    level = "exploration"
    rule = ("generated URL shapes (ws/wss, default/explicit ports, paths, queries, no path with query), protocols, custom "
            "headers, agent, compress, a Hypothesis-drawn 16-byte key served through os.urandom, two connects per object; the "
            "request bytes are parsed by an independent strict HTTP parser and compared field by field. Replies are generated "
            "from an RFC 7230-valid grammar: status, reason, header order/casing/OWS/obs-fold, unrelated and duplicate headers, "
            "Upgrade variants (case variants, other tokens, values with characters special to string formatting), 19 Sec-WebSocket-Accept classes (correct, digest of another key, without GUID, case variants, "
            "truncations, padding, hex, ...), header blocks around 16384 bytes with and without terminator, any read "
            "segmentation, a frame following in the same stream. Ready iff 101 + Upgrade websocket + exact digest; otherwise "
            "Rejected / ProtocolError(>16 KiB) with no Ready, no message events, socket released. Non-trivial = reply differs "
            "from the canonical spelling, or is a near-miss accept.")
    assumptions = ("reply generator only produces RFC 7230-valid header syntax, whose meaning (httpref.interpret_reply) is "
                   "computed from the generator's structure, not by parsing",)
    examples = {"quick": 4000, "thorough": 160000}

    def strategy(self, tier):
        token = st.from_regex(r"[a-z][a-z0-9.\-]{0,8}", fullmatch=True)
        url = st.fixed_dictionaries({
            "scheme": st.sampled_from(["ws", "ws", "wss"]),
            "host": st.sampled_from(HOSTS),
            "port": st.one_of(st.none(), st.sampled_from([80, 443, 8080, 65535, 1, 8443])),
            "path": st.sampled_from(PATHS), "query": st.sampled_from(QUERIES),
            # credentials in the authority part of the URL: not part of the host the request is for
            "userinfo": st.sampled_from(USERINFO),
        })
        hname = st.from_regex(r"X-[A-Za-z][A-Za-z0-9\-]{0,10}", fullmatch=True)
        hval = st.from_regex(r"[!-~]([ -~]{0,18}[!-~])?", fullmatch=True)
        reply = st.fixed_dictionaries({
            "status": gen.weighted([(6, st.just(101)), (6, st.sampled_from(STATUSES)), (1, st.sampled_from(ODD_STATUSES))]),
            "sep": gen.weighted([(12, st.just(" ")), (1, st.sampled_from(SEPS_BEFORE_STATUS))]),
            "sep2": gen.weighted([(12, st.just(" ")), (1, st.sampled_from(SEPS_AFTER_STATUS))]),
            "reason": st.sampled_from(REASONS),
            "upgrade": gen.weighted([(1, st.none()), (7, st.sampled_from(UPGRADES[:4] * 3 + UPGRADES))]),
            "accept": gen.weighted([(8, st.just("correct")), (8, st.sampled_from(ACCEPT_KINDS)), (1, st.just("missing"))]),
            "protocol": st.one_of(st.none(), token),
            "extra": st.lists(st.tuples(hname, hval).map(list), max_size=3),
            "order": st.lists(st.integers(0, 7), max_size=6),
            "casing": st.lists(st.integers(0, 3), min_size=1, max_size=4),
            "ows": st.lists(st.tuples(st.sampled_from(["", " ", "  ", "\t", " \t "]),
                                      st.sampled_from(["", " ", "\t", "  "])).map(list), min_size=1, max_size=3),
            "folds": st.lists(st.integers(0, 7), max_size=2),
            "fold_start": st.one_of(st.none(), st.none(), st.lists(st.integers(0, 7), min_size=1, max_size=3)),
            "pad_to": st.one_of(st.none(), st.none(), st.none(), st.integers(16375, 16395),
                                st.sampled_from([16384, 16385, 20000, 70000])),
            "terminate": gen.weighted([(6, st.just(True)), (1, st.just(False))]),
            "deflate": st.booleans(),
            # how the server spells the extension it accepted (parameters, white space around ";")
            "ext_spelling": st.integers(0, 11),
            "dups": gen.weighted([(5, st.just([])), (1, st.lists(st.one_of(
                st.fixed_dictionaries({"name": st.sampled_from(DUP_NAMES[:4]), "value": st.sampled_from(UPGRADES[4:] + ["websocket"]),
                                       "first": st.booleans()}),
                st.fixed_dictionaries({"name": st.sampled_from(DUP_NAMES[4:]), "value": st.sampled_from(ACCEPT_KINDS),
                                       "first": st.booleans()})), min_size=1, max_size=2))]),
        })
        return st.fixed_dictionaries({
            "url": url,
            "protocols": st.lists(token, max_size=3),
            "headers": st.lists(st.tuples(hname, hval).map(list), max_size=3),
            "agent": st.one_of(st.none(), st.just("TestAgent/1.0 (x)")),
            "compress": st.booleans(),
            "key": st.binary(min_size=16, max_size=16).map(lambda b: b.hex()),
            "key2": st.one_of(st.none(), st.binary(min_size=16, max_size=16).map(lambda b: b.hex())),
            "reply": reply,
            "seg": gen.segmentation(),
            # an earlier connection in this process (same WebSocket object or another) and how it ended
            "prelude": gen.prelude(),
            # a second live connection in the same process (interleaved with this one, or blocked in a send)
            "companion": gen.companion(),
            # connect() options that must not matter here
            "copts_noise": gen.copts_noise(),
            "during": gen.weighted([(4, st.none()), (1, st.fixed_dictionaries({
                "op": st.sampled_from(["getaddrinfo", "connect", "wrap", "recv"]), "n": st.integers(0, 1),
                "do": st.sampled_from([["send_text", "too early"], ["send_binary", "00ff"], ["ping", "70"]])}))]),
        })

    def enumerations(self, tier):
        def accepts():
            # every accept class x every Upgrade variant x a few statuses, canonical spelling otherwise
            for a in ACCEPT_KINDS + ["missing"]:
                for up in UPGRADES + [None]:
                    for status in (101, 200, 403):
                        for reason in ("Switching Protocols", "{0} %s {x!r}"):
                            yield {"url": {"scheme": "ws", "host": "example.test", "port": None, "path": "/", "query": ""},
                                   "protocols": [], "headers": [], "agent": None, "compress": False,
                                   "key": "000102030405060708090a0b0c0d0e0f", "key2": None, "seg": "whole",
                                   "reply": {"status": status, "upgrade": up, "accept": a, "terminate": True,
                                             "reason": reason}}
        def extension_spellings():
            for i in range(len(EXT_SPELLINGS)):
                nspaces = EXT_SPELLINGS[i].count(" ")
                for fold in [None] + list(range(min(nspaces, 3))):
                    for casing in range(4):
                        for ows in ([" ", ""], ["", " "], ["\t", "\t"]):
                            reply = {"status": 101, "upgrade": "websocket", "accept": "correct", "terminate": True, "deflate": True,
                                     "ext_spelling": i, "casing": [casing], "ows": [ows]}
                            if fold is not None:
                                reply["folds"] = [3]       # the extensions header is the fourth one
                            yield {"url": {"scheme": "ws", "host": "example.test", "port": None, "path": "/", "query": ""},
                                   "protocols": [], "headers": [], "agent": None, "compress": True,
                                   "key": "000102030405060708090a0b0c0d0e0f", "key2": None, "seg": "whole", "reply": reply}

        def odd_names():
            for name in ODD_NAMES:
                for casing in range(4):
                    for ows in ([" ", ""], ["", " "], ["\t", "\t"]):
                        yield {"url": {"scheme": "ws", "host": "example.test", "port": None, "path": "/", "query": ""},
                               "protocols": [], "headers": [], "agent": None, "compress": False,
                               "key": "000102030405060708090a0b0c0d0e0f", "key2": None, "seg": "whole",
                               "reply": {"status": 101, "upgrade": "websocket", "accept": "correct", "terminate": True,
                                         "odd_name": name, "casing": [casing], "ows": [ows]}}

        def spellings():
            # every spelling dimension applied to each header of an otherwise canonical reply, once with the
            # correct digest (must be Ready) and once with the digest of another key (must be Rejected)
            pres = ["", " ", "  ", "\t", " \t "]
            posts = ["", " ", "\t", "  "]
            for accept in ("correct", "other_key"):
                for target in range(3):
                    for casing in range(4):
                        for pre in pres:
                            for post in posts:
                                for fold in (None, [target]):
                                    for order in ([], [2, 0], [1, 2, 0]):
                                        # reply_spec permutes first and then indexes casing/ows/fold by position
                                        pos = list(range(3))
                                        for i, j in enumerate(order):
                                            a, b = i % 3, j % 3
                                            pos[a], pos[b] = pos[b], pos[a]
                                        at = pos.index(target)
                                        c2, o2 = [0, 0, 0], [[" ", ""], [" ", ""], [" ", ""]]
                                        c2[at], o2[at] = casing, [pre, post]
                                        yield {"url": {"scheme": "ws", "host": "example.test", "port": None, "path": "/",
                                                       "query": ""},
                                               "protocols": [], "headers": [], "agent": None, "compress": False,
                                               "key": "000102030405060708090a0b0c0d0e0f", "key2": None, "seg": "whole",
                                               "reply": {"status": 101, "upgrade": "websocket", "accept": accept,
                                                         "terminate": True, "casing": c2, "ows": o2, "order": order,
                                                         "fold_start": None if fold is None else [at]}}
        base = {"url": {"scheme": "ws", "host": "example.test", "port": None, "path": "/", "query": ""}, "protocols": [],
                "headers": [], "agent": None, "compress": False, "key": "000102030405060708090a0b0c0d0e0f", "key2": None,
                "seg": "whole"}
        battery = [dict(base, reply={"status": 101, "upgrade": "websocket", "accept": "correct", "terminate": True}),
                   dict(base, reply={"status": 101, "upgrade": "websocket", "accept": "other_key", "terminate": True}),
                   dict(base, reply={"status": 101, "upgrade": "h2c", "accept": "correct", "terminate": True}),
                   dict(base, reply={"status": 200, "upgrade": "websocket", "accept": "correct", "terminate": True})]
        def url_shapes():
            # every URL shape: scheme x host x port x path x query x credentials, canonical reply
            for scheme in ("ws", "wss"):
                for host in HOSTS:
                    for port in (None, 80, 443, 8080):
                        for path, query in (("", ""), ("/", "x=1"), ("/a/b%20c", ""), ("", "flag")):
                            for userinfo in (None, "bob", "bob:secret", "a%40b:p%3Aw"):
                                yield dict(base, url={"scheme": scheme, "host": host, "port": port, "path": path,
                                                      "query": query, "userinfo": userinfo},
                                           reply={"status": 101, "upgrade": "websocket", "accept": "correct", "terminate": True})
        def odd_status_lines():
            # otherwise perfect replies whose status line is not "HTTP/1.1 SP 101 SP reason": never Ready
            for st_ in ODD_STATUSES:
                yield dict(base, reply={"status": st_, "upgrade": "websocket", "accept": "correct", "terminate": True})
            for sep in SEPS_BEFORE_STATUS:
                yield dict(base, reply={"status": 101, "upgrade": "websocket", "accept": "correct", "terminate": True, "sep": sep})
            for sep in SEPS_AFTER_STATUS:
                yield dict(base, reply={"status": 101, "upgrade": "websocket", "accept": "correct", "terminate": True, "sep2": sep})
                yield dict(base, reply={"status": 403, "upgrade": "websocket", "accept": "correct", "terminate": True,
                                        "sep2": sep, "reason": "101 Switching Protocols"})

        def limit_and_terminator():
            # header blocks of 16378..16390 bytes (the limit is 16384), terminated or not, delivered in two reads cut at
            # each of the last 7 positions of the block (inside and just before the final CRLFCRLF) and just after it
            for size in range(16378, 16391):
                for terminate in (True, False):
                    for back in (-2, 0, 1, 2, 3, 4, 5, 6, 7):
                        yield dict(base, seg=["cuts", [size - back]],
                                   reply={"status": 101, "upgrade": "websocket", "accept": "correct", "terminate": terminate,
                                          "pad_to": size})

        def repeated_headers():
            # Upgrade / Sec-WebSocket-Accept sent twice, the second spelled in any casing, one of the two values wrong,
            # in both orders: never Ready
            for name in DUP_NAMES:
                is_accept = "accept" in name.lower()
                for wrong in (["other_key", "empty", "lower"] if is_accept else ["h2c", "", "websocket2"]):
                    for first in (False, True):
                        yield dict(base, reply={"status": 101, "upgrade": "websocket", "accept": "correct", "terminate": True,
                                                "dups": [{"name": name, "value": wrong, "first": first}]})
        return [Enumeration("url_shapes", url_shapes, exhaustive=True),
                Enumeration("repeated_critical_headers", repeated_headers, exhaustive=True),
                Enumeration("header_block_at_the_limit_x_cut_in_terminator", limit_and_terminator, exhaustive=True),
                Enumeration("malformed_status_lines", odd_status_lines, exhaustive=True),
                Enumeration("accept_x_upgrade_x_status", accepts, exhaustive=True),
                Enumeration("critical_header_names_that_only_look_right", odd_names, exhaustive=True),
                Enumeration("accepted_extension_spellings", extension_spellings, exhaustive=True),
                Enumeration("header_spellings", spellings, exhaustive=True), after_every_prelude(battery), with_debug_log(battery),
                with_companion(battery)]

    def run_case(self, case):
        u = case["url"]
        url = build_url(u)
        r = dict(case["reply"])
        if r.get("deflate") and case["compress"]:
            r["extensions"] = [EXT_SPELLINGS[r.get("ext_spelling", 0) % len(EXT_SPELLINGS)]]
        spec = reply_spec(r)
        keys = ["ffffffffffffffffffffffffffffffff", case["key"]]
        if case.get("key2"):
            keys.append(case["key2"])
        reply_bytes_len = len(httpref.build_reply(spec, b""))
        seg = effective_seg(case["seg"], reply_bytes_len + len(FRAME_AFTER))
        script = [["wait_request"], ["stream", [["reply", spec], ["bytes", FRAME_AFTER]], seg, 0.0], ["eof", 0.0]]
        att = {"script": script}
        ws_opts = {"protocols": case["protocols"], "compress": case["compress"],
                   "headers": [[h.encode().hex(), v.encode().hex()] for h, v in case["headers"]]}
        if case["agent"]:
            ws_opts["agent"] = case["agent"]
        scn = {"url": url, "attempts": [att, {"script": [["wait_request"], ["stream", [["reply", None]], "whole", 0.0],
                                                          ["eof", 0.0]]}],
               "ws_opts": ws_opts, "keys": keys}
        if case.get("during"):
            # another application thread calls a send method while the connecting thread is blocked in a system call:
            # it is refused, and the upgrade request is still the first and only thing written before Ready
            d = case["during"]
            scn["io_reactions"] = [{"at": [d["op"], d["n"]], "do": [d["do"]]}]
        traces = simnet.run_chain(scn, 2 if case.get("key2") else 1)
        tr = traces[0]
        sim = tr.sim
        labels = {"scheme:" + u["scheme"]}
        # the status line is "HTTP/1.1 SP status SP reason"; the generated other separators leave the status token glued to
        # a control character (FS/GS/RS/US: white space to str.split() but not to bytes.split() nor to HTTP)
        wellformed_line = r.get("sep", " ") == " " and r.get("sep2", " ") == " "
        canonical = (r["status"] == 101 and r.get("upgrade") == "websocket" and r["accept"] == "correct"
                     and not r.get("extra") and not r.get("order") and not r.get("dups") and wellformed_line and set(r.get("casing", [0])) == {0}
                     and not r.get("pad_to") and r.get("terminate", True)
                     and all(o == [" ", ""] for o in r.get("ows", [[" ", ""]])))
        near_miss = r["accept"] not in ("correct", "missing", "empty")
        nontrivial = (not canonical) or near_miss
        labels.add("accept:" + r["accept"])
        for t in traces:
            if t.hang:
                return failed("hang", t.hang, labels, nontrivial)
            if t.escaped:
                return failed("escaped_exception", t.escaped, labels, nontrivial)

        # ---------------- the request ----------------
        key_raw = bytes.fromhex(case["key"])
        bad = self.check_request(case, tr, key_raw, u)
        if bad:
            return failed(bad[0], bad[1], labels, nontrivial)
        if case.get("key2"):
            bad = self.check_request(case, traces[1], bytes.fromhex(case["key2"]), u)
            if bad:
                return failed(bad[0], "second connect: " + bad[1], labels, nontrivial)
            labels.add("two_connects")

        # ---------------- the verdict ----------------
        key_b64 = base64.b64encode(key_raw)
        status, eff = httpref.interpret_reply(spec, key_b64)
        digest = httpref.accept_for(key_b64)
        block = reply_bytes_len
        terminated = r.get("terminate", True)
        names = tr.names()
        accept = eff.get("sec-websocket-accept")
        upgrade = eff.get("upgrade")
        should_ready = (terminated and block <= 16384 and status == 101 and wellformed_line and upgrade is not None
                        and upgrade.lower() == "websocket" and accept == digest)
        msgs = [n for n in names if n in simnet.MESSAGE_EVENTS or n == "poll"]
        if block > 16384:
            labels.add("block>16K" + ("" if terminated else "_unterminated"))
        elif not terminated:
            labels.add("unterminated")
        if should_ready:
            labels.add("ready_expected")
            for h in spec["headers"]:
                if h[0].lower() in ("upgrade", "sec-websocket-accept") and "\r\n" in h[2].get("pre", ""):
                    labels.add("ready_expected+critical_header_folded")
            if "ready" not in names:
                return failed("correct_reply_rejected", "reply %s -> events %s (%s)" % (
                    self.brief(spec), names, [e.get("reason") for e in tr.events if e["name"] == "rejected"]),
                              labels, nontrivial)
            ready = [e for e in tr.events if e["name"] == "ready"][0]
            want_proto = eff.get("sec-websocket-protocol")
            if ready.get("protocol") != want_proto:
                return failed("ready_protocol", "Ready.protocol=%r, reply negotiated %r" % (ready.get("protocol"), want_proto),
                              labels, nontrivial)
            want_ext = ["permessage-deflate"] if r.get("extensions") else []
            if list(ready.get("extensions") or []) != want_ext:
                return failed("ready_extensions", "Ready.extensions=%r, reply negotiated %r" % (
                    ready.get("extensions"), want_ext), labels, nontrivial)
            if names.count("text") != 1:
                return failed("frame_after_reply_lost", "frame following the reply in the same stream: events %s" % names,
                              labels, nontrivial)
            return held(labels, nontrivial)
        # must not be ready
        if "ready" in names:
            if (accept is not None and accept != digest and accept.lower() == digest.lower()
                    and status == 101 and upgrade is not None and upgrade.lower() == "websocket"
                    and terminated and block <= 16384):
                return failed("accept_case_variant",
                              "Sec-WebSocket-Accept %r differs from the digest %r only in letter case, yet Ready was "
                              "yielded" % (accept, digest), labels, nontrivial)
            return failed("ready_for_bad_reply", "Ready for reply %s (status=%r upgrade=%r accept=%r digest=%r block=%d "
                          "terminated=%s)" % (self.brief(spec), status, upgrade, accept, digest, block, terminated),
                          labels, nontrivial)
        if msgs:
            return failed("events_without_ready", "events %s without a successful handshake" % names, labels, nontrivial)
        if block > 16384:
            if "protocol_error" not in names or "rejected" in names:
                return failed("oversized_reply", "header block of %d bytes (terminated=%s): events %s" % (
                    block, terminated, names), labels, nontrivial)
        elif terminated:
            if "rejected" not in names:
                return failed("not_rejected", "reply %s: events %s" % (self.brief(spec), names), labels, nontrivial)
            if "protocol_error" in names:
                return failed("not_rejected", "ProtocolError for a %d-byte header block: events %s" % (block, names),
                              labels, nontrivial)
        if names[-1] != "disconnected":
            return failed("no_terminal_event", "events %s" % names, labels, nontrivial)
        for st0 in sim.socks[:1]:
            if not st0.released:
                return failed("socket_not_released", "failed handshake left the socket open; events %s" % names,
                              labels, nontrivial)
        return held(labels, nontrivial)

    @staticmethod
    def brief(spec):
        return "%s %r %s" % (spec.get("status"), spec.get("reason"),
                             [(h[0], h[1][:40]) for h in spec.get("headers", [])][:8])

    def check_request(self, case, tr, key_raw, u):
        sim = tr.sim
        sends = [e for e in sim.log[tr.log_start:tr.log_end] if e[0] == "send"]
        if not sends:
            return "no_request", "nothing was written; events %s" % tr.names()
        first = sends[0][2]
        block, rest = wire.split_http(first)
        if block is None:
            return "bad_request", "first write is not a complete header block: %r" % first[:80]
        if rest:
            return "bad_request", "%d bytes follow the request in the same write" % len(rest)
        for e in sends[1:]:
            if e[2].startswith(b"GET ") or b"HTTP/1.1\r\n" in e[2][:200]:
                return "bad_request", "a second request was written"
        try:
            req = httpref.parse_request(block)
        except httpref.HttpError as error:
            return "bad_request", "request is not well-formed HTTP/1.1: %s | %r" % (error, block[:200])
        path = u["path"] or "/"
        target = path + ("?" + u["query"] if u["query"] else "")
        port = u["port"] if u["port"] is not None else (443 if u["scheme"] == "wss" else 80)
        want_host = ("%s:%d" % (u["host"].lower(), port)).encode()
        if req.method != b"GET" or req.version != b"HTTP/1.1":
            return "bad_request", "request line %r %r" % (req.method, req.version)
        if req.target != target.encode():
            return "bad_request", "request-target %r, expected %r (url %s)" % (req.target, target, build_url(u))
        hosts = req.get_all(b"host")
        if len(hosts) != 1 or hosts[0].lower() != want_host:
            return "bad_request", "Host %r, expected %r" % (hosts, want_host)
        for name, want in ((b"upgrade", b"websocket"), (b"connection", b"upgrade"), (b"sec-websocket-version", b"13")):
            got = req.get_all(name)
            if len(got) != 1 or got[0].lower() != want:
                return "bad_request", "%s header %r, expected %r" % (name.decode(), got, want)
        keys = req.get_all(b"sec-websocket-key")
        if len(keys) != 1:
            return "bad_request", "%d Sec-WebSocket-Key headers" % len(keys)
        try:
            raw = base64.b64decode(keys[0], validate=True)
        except Exception:
            return "bad_key", "Sec-WebSocket-Key %r is not base64" % keys[0]
        if len(raw) != 16 or base64.b64encode(raw) != keys[0]:
            return "bad_key", "Sec-WebSocket-Key %r is not the base64 of 16 bytes" % keys[0]
        if raw != key_raw:
            return "stale_key", "request carries key %s, the 16 bytes drawn for this connect were %s (issued so far: %s)" % (
                raw.hex(), key_raw.hex(), [k.hex() for k in sim.keys_issued])
        for h, v in case["headers"]:
            if (h.encode(), v.encode()) not in req.headers:
                return "bad_request", "custom header %r: %r not sent verbatim; headers %r" % (h, v, req.headers[:12])
        protos = req.get_all(b"sec-websocket-protocol")
        if case["protocols"]:
            offered = [p.strip() for val in protos for p in val.split(b",")]
            if offered != [p.encode() for p in case["protocols"]]:
                return "bad_request", "offered protocols %r, expected %r" % (offered, case["protocols"])
        elif protos:
            return "bad_request", "Sec-WebSocket-Protocol sent although no protocols were given"
        exts = req.get_all(b"sec-websocket-extensions")
        if case["compress"]:
            if not exts or not any(b"permessage-deflate" in e for e in exts):
                return "bad_request", "compress=True but no permessage-deflate offer: %r" % exts
        elif exts:
            return "bad_request", "extension offer %r without compress" % exts
        if case["agent"]:
            if req.get(b"user-agent") != case["agent"].encode():
                return "bad_request", "User-Agent %r" % req.get(b"user-agent")
        return None


PROP = C10()
