"""C18 - available data is always drained without waiting for more traffic."""
import json
import os
import subprocess
import sys

from hypothesis import strategies as st

from harness import boot, build, gen, simnet, wire, httpref, deflateref
from harness.runner import Prop, Enumeration, held, failed, case_hash

B = wire.build_frame

SIZES = [1, 125, 126, 1000, 16383, 16384, 16385, 32768, 65535, 65536, 65537, 131072, 229376]
RECORDS = [1, 2, 100, 1024, 4096, 16383, 16384]


# violating frames that the frame parser rejects while parsing and that deliver nothing themselves
TAIL_CLASSES = ["reserved_opcode", "reserved_bits", "fragmented_control", "control_too_long", "masked_frame"]


def burst_bytes(b):
    """A burst spec -> (bytes, [(end offset, expected event)], ping payloads)"""
    out = bytearray()
    ends = []
    kind = b["kind"]
    if kind == "many_small":
        for i in range(b["n"]):
            if b.get("ping_every") and i % b["ping_every"] == b["ping_every"] - 1:
                p = b"p%d" % i
                out += B(wire.PING, p)
                ends.append((len(out), {"name": "ping", "data": p}))
            else:
                p = (b"m%04d" % i) * b.get("rep", 1)
                shape = (b.get("shapes") or [0])[i % len(b.get("shapes") or [0])]
                if shape == 1:            # empty binary message
                    p = b""
                    out += B(wire.BINARY, p)
                    ends.append((len(out), {"name": "binary", "data": p}))
                elif shape == 2:          # empty text message
                    out += B(wire.TEXT, b"")
                    ends.append((len(out), {"name": "text", "text": ""}))
                elif shape == 3:          # streamed text terminated by an empty final fragment
                    out += B(wire.TEXT, p, fin=0)
                    out += _inner_ping(b, i, ends, out)
                    out += B(wire.CONT, b"")
                    ends.append((len(out), {"name": "text", "text": p.decode("ascii")}))
                elif shape == 4:          # text
                    out += B(wire.TEXT, p)
                    ends.append((len(out), {"name": "text", "text": p.decode("ascii")}))
                else:
                    out += B(wire.BINARY, p)
                    ends.append((len(out), {"name": "binary", "data": p}))
    elif kind == "few_large":
        for i, size in enumerate(b["sizes"]):
            if b.get("text"):
                # text made of multi-byte characters (after 0-3 ASCII bytes, so that read, record and fragment
                # boundaries fall at every offset inside a character): 2-, 3- and 4-byte sequences
                ch = ["\u00e9", "\u20ac", "\U0001f600"][(b["text"] + i) % 3]
                pad = "x" * (b["text"] % 4)
                width = len(ch.encode("utf-8"))
                text = pad + ch * max(0, (size - len(pad)) // width)
                p = text.encode("utf-8")
                if b.get("fragment"):
                    half = len(p) // 2 + (b["text"] % 3)     # the fragment boundary may split a character too
                    out += B(wire.TEXT, p[:half], fin=0)
                    out += _inner_ping(b, i, ends, out)
                    out += B(wire.CONT, p[half:])
                else:
                    out += B(wire.TEXT, p)
                ends.append((len(out), {"name": "text", "text": text}))
                continue
            p = bytes([65 + i % 26]) * size
            if b.get("fragment"):
                half = size // 2
                out += B(wire.BINARY, p[:half], fin=0)
                out += _inner_ping(b, i, ends, out)
                out += B(wire.CONT, p[half:])
            else:
                out += B(wire.BINARY, p)
            ends.append((len(out), {"name": "binary", "data": p}))
    else:
        raise ValueError(kind)
    if b.get("exact"):
        # pad with one more binary frame so that the burst is EXACTLY a multiple of the 64 KiB
        # receive buffer (a read that fills the buffer to the last byte with nothing behind it)
        target = ((len(out) + 20) // 65536 + b["exact"]) * 65536
        room = target - len(out)
        for hdr in (2, 4, 10):
            n = room - hdr
            if n >= 0 and hdr == {7: 2, 16: 4, 64: 10}[7 if n < 126 else (16 if n < 65536 else 64)]:
                p = b"x" * n
                out += B(wire.BINARY, p)
                ends.append((len(out), {"name": "binary", "data": p}))
                break
    return bytes(out), ends


def _inner_ping(b, i, ends, out):
    """A Ping BETWEEN the fragments of message i (key "inner_ping"; its payload is arbitrary bytes, not text): it is
    complete, and must be delivered and answered, before the message around it is."""
    if not b.get("inner_ping"):
        return b""
    p = b"\x00\xff\xfe\x80 mid %d" % i
    frame = B(wire.PING, p)
    ends.append((len(out) + len(frame), {"name": "ping", "data": p}))
    return frame


# ---- scheduled stage: data that has arrived is delivered although ANOTHER THREAD of the same connection is in the middle
# of a (blocking) send - the deterministic scheduler of C11, every thread order x every single preemption
def _sched_scenarios():
    from props import racecommon as rc
    text = rc.B(wire.TEXT, b"arrived while the other thread was sending").hex()
    return {
        "available_text_vs_large_sender": {"deflate": False, "threads": {"B": [["send_binary", rc.big_payload("B", 0, 70000)]]},
                                           "loop": {"bytes": text, "idle_waits": 0}, "copts": {"ping_rate": 0}},
        "available_text_vs_small_sender_deflate": {"deflate": True, "threads": {"B": [["send_text", rc.payload_for("B", 0)]]},
                                                   "loop": {"bytes": text, "idle_waits": 0}, "copts": {"ping_rate": 0}},
    }


def _sched_judge(scn, out):
    if out.aborted:
        return "hang", out.aborted
    for name, err in out.errors.items():
        return "escaped_exception", "thread %s: %r" % (name, err)
    for name, st_ in out.states.items():
        if st_ not in ("done", "parked"):
            return "deadlock", "thread %s ended in state %s" % (name, st_)
    marks = [m for m in out.loop_marks if m[0] == "text"]
    if len(marks) != 1:
        return "delivery_mismatch", "the text message was delivered %d times; loop events %s" % (len(marks), out.loop_events)
    handed = [t for t in out.taken if t[1] == "B" and t[2] == "loop" and t[3] == "sendall.mid"]
    if handed and len(out.send_log) >= 2:
        # the event loop got the processor while the sender sat between the two halves of its socket write (holding
        # the write lock): the message that had arrived must come out before the sender gets to finish its write
        second_half = out.send_log[1][0]
        if marks[0][2] > second_half:
            return "delivered_late", ("the event loop ran while another thread was in the middle of a send, the text message "
                                      "had arrived, but it was delivered only after that send had finished (wire log %d > %d)"
                                      % (marks[0][2], second_half))
    return None


class C18(Prop):
    id = "C18"
    level = "exploration"
    rule = ("virtual clock, poll = 60 s: arrival patterns = list of (time, burst); a burst is up to 300 small frames (with Pings "
            "inside) or a few large ones (binary, or text of 2-/3-/4-byte characters shifted so that read, record and fragment "
            "boundaries fall inside characters) with sizes around the 16 KiB TLS record and the 64 KiB receive buffer (x1, x2, x3.5, +-1), "
            "optionally fragmented; transport plain or a record-oriented TLS model (record size drawn <= 16384; decrypted "
            "remainder visible only through pending(), the descriptor readable only while undecrypted records wait). Oracle: the "
            "virtual time at which each message event is yielded, and at which each automatic Pong is written, equals the time "
            "its last byte became available (no idle selector wait in between). Real-socket stage (both tiers): loopback TCP and "
            "TLS x PollSelector / SelectSelector x 2 burst shapes, server withholding traffic until acknowledged; a stall is "
            "declared only on a logical condition (client in selector, recv count frozen, unread bytes present). Non-trivial = "
            "burst larger than one read, or a TLS record holding >= 2 frames with a frame straddling records.")
    assumptions = ("SimTLSSocket follows OpenSSL's contract: one read decrypts at most one record; pending() = undelivered "
                   "remainder of the current record; readability of the descriptor reflects undecrypted bytes only",
                   "KQueueSelector does not exist on Linux and is not exercised")
    examples = {"quick": 1500, "thorough": 80000}

    def strategy(self, tier):
        small = st.fixed_dictionaries({
            "kind": st.just("many_small"), "n": st.one_of(st.integers(1, 40), st.integers(100, 300)),
            "rep": st.sampled_from([1, 1, 10, 60]), "ping_every": st.one_of(st.none(), st.integers(1, 20)),
            # per-frame shapes, cycled: 0 binary, 1 empty binary, 2 empty text, 3 text ended by an
            # empty final fragment, 4 text - whichever comes last is the last thing in its read
            "shapes": st.lists(st.integers(0, 4), min_size=1, max_size=5),
            "exact": st.one_of(st.none(), st.none(), st.integers(1, 3)), "inner_ping": st.booleans()})
        large = st.fixed_dictionaries({
            "inner_ping": st.booleans(),
            "kind": st.just("few_large"),
            "sizes": st.lists(st.one_of(st.sampled_from(SIZES), st.integers(1, 70000)), min_size=1, max_size=3),
            "fragment": st.booleans(), "exact": st.one_of(st.none(), st.none(), st.integers(1, 2)),
            # 0 = binary; n > 0 = text of multi-byte characters (n picks the character width and the ASCII padding)
            "text": st.sampled_from([0, 0, 1, 2, 3, 4, 5, 6, 7, 8, 9, 10, 11])})
        burst = st.one_of(small, large)
        return st.fixed_dictionaries({
            "tls": st.booleans(),
            "eager": st.booleans(),      # TLS layer with read-ahead: pending() may exceed a record / the buffer
            "record": st.sampled_from(RECORDS),
            "bursts": st.lists(st.tuples(st.integers(0, 40), burst).map(list), min_size=1, max_size=4),
            "with_reply": st.booleans(),   # first burst arrives in the same segment as the handshake reply
            "chunk": st.one_of(st.none(), st.sampled_from([1000, 16384, 20000, 65536, 70000])),
            # an earlier connection in this process (same WebSocket object or another) and how it ended
            "prelude": gen.prelude(),
            "tail_violation": gen.weighted([(5, st.none()), (1, st.fixed_dictionaries({
                "class": st.sampled_from(TAIL_CLASSES), "a": st.integers(0, 20), "b": st.integers(0, 20), "wide": st.booleans()}))]),
            # a second live connection in the same process (interleaved with this one, or blocked in a send)
            "companion": gen.companion(),
            # calls with unsendable arguments that the application tries (and whose error it catches) on the way
            "noise_calls": gen.noise_calls(),
            # the application has switched on DEBUG logging for the library
            "debug_log": gen.debug_log(),
            # connect() options that must not matter here
            "copts_noise": gen.copts_noise(("poll", "ping_timeout", "close_timeout",)),
            # the k-th write after the upgrade request (an automatic Pong) fails without breaking the transport (a send
            # timeout, a transient error): whatever has arrived is still there to be read
            "deflate": gen.deflate_opt(),
            "send_fault": gen.weighted([(5, st.none()), (1, st.tuples(st.integers(1, 6), st.sampled_from(["timeout", "oserror"])).map(list))]),
        })

    def enumerations(self, tier):
        def grid():
            for tls in (False, True, "eager"):
                for record in (RECORDS if tls is True else [16384]):
                    for size in SIZES:
                        for fragment in (False, True, "ping_inside"):
                            yield {"tls": bool(tls), "eager": tls == "eager", "record": record, "with_reply": False, "chunk": None,
                                   "bursts": [[4, {"kind": "few_large", "sizes": [size, 10], "fragment": bool(fragment),
                                                   "inner_ping": fragment == "ping_inside"}],
                                              [4, {"kind": "many_small", "n": 120, "rep": 10, "ping_every": 7}]]}
            # large TEXT messages of 2-, 3- and 4-byte characters, shifted by 0-3 ASCII bytes: every read / record /
            # fragment boundary offset inside a character
            for tls in (False, True):
                for size in (70000, 140000):
                    for text in range(1, 13):
                        for fragment in (False, True, "ping_inside"):
                            yield {"tls": tls, "eager": False, "record": 16384, "with_reply": False, "chunk": None,
                                   "bursts": [[4, {"kind": "few_large", "sizes": [size, 40], "fragment": bool(fragment), "text": text,
                                                   "inner_ping": fragment == "ping_inside"}],
                                              [4, {"kind": "many_small", "n": 3, "rep": 2, "ping_every": 2}]]}
            # bursts that are exactly 1x / 2x / 3x the receive buffer, plain and TLS
            for tls in (False, True, "eager"):
                for k in (1, 2, 3):
                    for n in (1, 40):
                        yield {"tls": bool(tls), "eager": tls == "eager", "record": 16384, "with_reply": False, "chunk": None,
                               "bursts": [[4, {"kind": "many_small", "n": n, "rep": 10, "ping_every": 9, "exact": k}],
                                          [8, {"kind": "many_small", "n": 2, "rep": 1, "ping_every": None}]]}
            # every frame shape as the LAST frame of a read, plain and TLS
            for tls in (False, True):
                for last in range(5):
                    for n in (1, 2, 7):
                        shapes = [0] * (n - 1) + [last]
                        yield {"tls": tls, "record": 16384, "with_reply": n == 2, "chunk": None,
                               "bursts": [[4, {"kind": "many_small", "n": n, "rep": 1, "ping_every": None, "shapes": shapes}],
                                          [8, {"kind": "many_small", "n": 1, "rep": 1, "ping_every": None, "shapes": [0]}]]}
        def with_tail():
            for tls in (False, True):
                for c in TAIL_CLASSES:
                    for a in (0, 1, 2):
                        for n in (1, 3, 200):
                            yield {"tls": tls, "eager": False, "record": 16384, "with_reply": n == 3, "chunk": None,
                                   "tail_violation": {"class": c, "a": a, "b": 1, "wide": False},
                                   "bursts": [[4, {"kind": "many_small", "n": n, "rep": 3, "ping_every": 2}]]}
        def failed_reply_writes():
            for tls in (False, True):
                for k in (1, 2, 5):
                    for how in ("timeout", "oserror"):
                        for n, every in ((40, 3), (300, 7), (4, 1)):
                            yield {"tls": tls, "eager": False, "record": 16384, "with_reply": False, "chunk": None,
                                   "send_fault": [k, how],
                                   "bursts": [[4, {"kind": "many_small", "n": n, "rep": 60, "ping_every": every}],
                                              [8, {"kind": "many_small", "n": 6, "rep": 1, "ping_every": 2}]]}
        def with_deflate():
            for tls in (False, True):
                for deflate in (True, {"sb": 9, "cb": 9, "snct": True, "cnct": True}):
                    for fragment in (False, True, "ping_inside"):
                        for text in (0, 2):
                            yield {"tls": tls, "eager": False, "record": 16384, "with_reply": False, "chunk": None, "deflate": deflate,
                                   "bursts": [[4, {"kind": "few_large", "sizes": [70000, 10], "fragment": bool(fragment), "text": text,
                                                   "inner_ping": fragment == "ping_inside"}],
                                              [4, {"kind": "many_small", "n": 120, "rep": 10, "ping_every": 7, "shapes": [0, 4, 3, 1, 2]}]]}
        from props.c11 import C11

        class _Sched(C11):
            id = "C18"

            def scenarios(self_inner):
                return _sched_scenarios()

            def judge(self_inner, scn, out):
                return _sched_judge(scn, out)

            def bound2(self_inner):
                return []

            def first_use(self_inner):
                return []
        self._sched = _Sched()
        inner = self._sched.enumerations(tier)[0]

        def scheduled():
            for c in inner.make():
                yield dict(c, sched=True)
        return [Enumeration("sizes_x_records_grid", grid, exhaustive=True),
                Enumeration("available_data_while_another_thread_is_inside_a_send", scheduled, exhaustive=True),
                Enumeration("bursts_with_permessage_deflate_negotiated", with_deflate, exhaustive=True),
                Enumeration("an_automatic_reply_cannot_be_written", failed_reply_writes, exhaustive=True),
                Enumeration("bursts_followed_by_a_violating_frame", with_tail, exhaustive=True)]

    def run_case(self, case):
        if case.get("sched"):
            if not hasattr(self, "_sched"):
                self.enumerations("quick")
            inner = dict(case)
            inner.pop("sched")
            return self._sched.run_case(inner)
        tls = case["tls"]
        # cost bound: at most ~12000 reads per connection (tiny records only with small bursts)
        total = sum(len(burst_bytes(b)[0]) for _, b in case["bursts"])
        case = dict(case, record=max(case["record"], total // 12000 + 1))
        if case.get("chunk"):
            case["chunk"] = max(case["chunk"], total // 12000 + 1)
        script = [["wait_request"]]
        # permessage-deflate negotiated (the frames of the bursts stay uncompressed, which the extension allows per
        # message): every message goes through the extension-aware code paths
        reply = httpref.canonical_spec(extensions=[deflateref.header_of(case["deflate"])]) if case.get("deflate") else None
        expected = []      # (arrival time, event)
        t = 0.0
        first = True
        big_read = False
        straddle = False
        for bi, (dt, b) in enumerate(case["bursts"]):
            data, ends = burst_bytes(b)
            if case.get("tail_violation") and bi == len(case["bursts"]) - 1:
                # ONE protocol-violating frame right behind the last burst (in the same arrival): everything complete
                # in front of it is available and has to be delivered - and every Ping answered - all the same
                from props.c04 import violating_frames
                data += violating_frames(dict(case["tail_violation"]), False)
            seg = "whole" if not case.get("chunk") else ["uniform", case["chunk"]]
            gap = dt * 0.25
            if first and case["with_reply"]:
                script.append(["stream", [["reply", reply], ["bytes", data]], seg, 0.0])
                at = 0.0
            else:
                if first:
                    script.append(["stream", [["reply", reply]], "whole", 0.0])
                script.append(["stream", [["bytes", data]], seg, gap])
                t += gap
                at = t
            first = False
            for off, ev in ends:
                expected.append((at, ev))
            read_unit = min(65536, case["chunk"] or 1 << 30, case["record"] if tls else 1 << 30)
            if len(data) > read_unit:
                big_read = True
            if tls and len(ends) >= 2 and len(data) > case["record"]:
                straddle = True
        script.append(["eof", 1.0])
        scn = build.scenario(script, url="wss://example.test/" if tls else build.URL,
                             connect_opts={"poll": 60.0, "ping_rate": 0},
                             ws_opts={"compress": True} if case.get("deflate") else None,
                             attempt_extra=dict({"record": case["record"], "tls_eager": bool(tls and case.get("eager"))},
                                                **({"faults": {"send": {str(case["send_fault"][0]): case["send_fault"][1]}}}
                                                   if case.get("send_fault") else {})),
                             horizon=100000.0)
        tr = simnet.run_scenario(scn)
        labels = {("tls_eager" if case.get("eager") else "tls") if tls else "plain"}
        if big_read:
            labels.add("burst_larger_than_one_read")
        if straddle:
            labels.add("frames_straddle_tls_records")
        nontrivial = big_read or straddle
        if tr.hang:
            return failed("hang", tr.hang, labels, nontrivial)
        if tr.escaped:
            return failed("escaped_exception", tr.escaped, labels, nontrivial)
        got = [e for e in tr.events if e["name"] in ("binary", "ping", "text")]
        if len(got) != len(expected):
            return failed("delivery_mismatch", "%d messages delivered, %d sent; events end %s" % (
                len(got), len(expected), tr.names()[-4:]), labels, nontrivial)
        for i, (g, (at, ev)) in enumerate(zip(got, expected)):
            if g["name"] != ev["name"] or g.get("data") != ev.get("data") or g.get("text") != ev.get("text"):
                return failed("delivery_mismatch", "message %d differs" % i, labels, nontrivial)
            if g["t"] != at:
                idle = [w for w in tr.sim.wait_log if not w[2] and at <= w[0] < g["t"]]
                return failed("delivered_late",
                              "message %d of %d (%s, %d bytes) became available at t=%s but was delivered at t=%s, after %d idle "
                              "selector wait(s) of %s s (transport %s, record %d)" % (
                                  i, len(expected), g["name"], len(ev.get("data", ev.get("text", ""))), at, g["t"], len(idle),
                                  idle[0][1] if idle else "?", "tls" if tls else "plain", case["record"]),
                              labels, nontrivial)
        # automatic pongs: written at the time their Ping became available
        pings = [(at, ev["data"]) for at, ev in expected if ev["name"] == "ping"]
        pongs = []
        for e in tr.sim.log:
            # (a write that the harness made fail still counts: the reply was attempted when it was due)
            if e[0] in ("send", "send_fail") and e[4] == "lib" and not e[2].startswith(b"GET "):
                frames, _ = wire.decode_frames(e[2])
                pongs += [(e[3], f.payload) for f in frames if f.opcode == wire.PONG]
                if e[0] == "send_fail":
                    labels.add("automatic_reply_write_failed")
        if len(pongs) != len(pings):
            return failed("pong_count", "%d Pongs for %d Pings" % (len(pongs), len(pings)), labels, nontrivial)
        for (pt, pp), (at, data) in zip(pongs, pings):
            if pp != data or pt != at:
                return failed("pong_late", "Pong for Ping %r written at t=%s, Ping available at t=%s" % (data, pt, at),
                              labels, nontrivial)
        if pings:
            labels.add("pings_in_burst")
        return held(labels, nontrivial)

    # ---- real sockets --------------------------------------------------------------
    def extra(self, tier, seed, acc):
        env = dict(os.environ, VERIF_REPO=boot.REPO, PYTHONHASHSEED="0")
        script = os.path.join(boot.VERIF, "harness", "realnet.py")
        try:
            r = subprocess.run([sys.executable, script], capture_output=True, text=True, env=env, timeout=400)
        except subprocess.TimeoutExpired:
            return {"real_sockets": "inconclusive: runner timeout"}
        if r.returncode != 0:
            raise boot.HarnessError("realnet.py failed: " + r.stderr[-800:])
        runs = json.loads(r.stdout.strip().splitlines()[-1])
        summary = []
        for run in runs:
            case = {"real": True, "transport": run["transport"], "selector": run["selector"], "burst": run["burst"]}
            acc.evaluations += 1
            acc.nontrivial.add(case_hash(case))
            key = "real:%s:%s" % (run["transport"], run["selector"])
            acc.labels[key] = acc.labels.get(key, 0) + 1
            summary.append({k: run.get(k) for k in ("transport", "selector", "burst", "frames_expected", "frames_received",
                                                    "stall", "inconclusive", "wall_s", "server_error", "client_error")})
            if run.get("stall"):
                acc.failure = ("stall_on_real_socket", "%s/%s/%s: %s" % (run["transport"], run["selector"], run["burst"],
                                                                         run["stall"]), case)
                break
            if run.get("client_error"):
                acc.failure = ("escaped_exception", "real %s run: %s" % (run["transport"], run["client_error"]), case)
                break
            if not run.get("inconclusive") and run["frames_received"] != run["frames_expected"]:
                acc.failure = ("delivery_mismatch", "real %s/%s run delivered %d of %d frames (server: %s)" % (
                    run["transport"], run["selector"], run["frames_received"], run["frames_expected"], run.get("server_error")),
                    case)
                break
        acc.stages["real_sockets"] = {"evaluations": len(runs)}
        return {"real_socket_runs": summary}

    def run_real_case(self, case):
        return held()


PROP = C18()
