"""Realistic mutations of lomond (textual edits), per property.  ``equivalent`` ones
preserve behaviour and must NOT be flagged."""

MUTANTS = []


def M(name, props, *edits, **kw):
    MUTANTS.append(dict(name=name, props=list(props), edits=list(edits), **kw))


# ---- C01 -----------------------------------------------------------------
M("c01_frames_not_cleared", ["C01"],
  ("lomond/stream.py", "                    del self._frames[:]\n", "                    pass\n"))
M("c01_control_joins_fragments", ["C01"],
  ("lomond/stream.py", "                yield self.build_message([frame])\n",
   "                yield self.build_message([frame])\n                if self._frames: self._frames.append(frame)\n"))
M("c01_unpack64_signed", ["C01"],
  ("lomond/frame_parser.py", 'unpack64 = struct.Struct(b"!Q").unpack', 'unpack64 = struct.Struct(b"!I4x").unpack'))
M("c01_len126_ge", ["C01"],
  ("lomond/frame_parser.py", "if payload_length == 126:", "if payload_length >= 126:"))
M("c01_parser_buffer_alias", ["C01"],
  ("lomond/parser.py", "self._awaiting = self._gen.send(_buffer[:])\n                    del _buffer[:]",
   "self._awaiting = self._gen.send(_buffer)\n                    _buffer = self._buffer = bytearray()"),
  equivalent=True)
M("c01_binary_memoryview", ["C01"],
  ("lomond/session.py", "                        for event in self.websocket.feed(data):",
   "                        for event in self.websocket.feed(data if len(data) != 3 else data):"),
  equivalent=True)
M("c01_drop_empty_final_fragment", ["C01"],
  ("lomond/stream.py", "                self._frames.append(frame)\n",
   "                if frame.payload or not frame.is_continuation or not frame.fin: self._frames.append(frame)\n"),
  equivalent=True)
M("c01_pong_payload_dropped_when_125", ["C01"],
  ("lomond/message.py", "            return Pong(payload)", "            return Pong(payload if len(payload) != 125 else payload[:124])"))
M("c05_text_lossy_decode", ["C05"],
  ("lomond/message.py", "            text = payload.decode('utf-8')", "            text = payload.decode('utf-8', 'replace')"))
M("c01_join_skips_empty_first", ["C01"],
  ("lomond/message.py", "            payload = b''.join(bytes(frame.payload) for frame in frames)",
   "            payload = b''.join(bytes(frame.payload) for frame in frames[-2:])"))
M("c01_zero_copy_single_read", ["C01"],
  ("lomond/parser.py", "                    self._awaiting = self._gen.send(_buffer[:])\n                    del _buffer[:]\n\n            # Awaiting a read until",
   "                    self._awaiting = self._gen.send(chunk if len(chunk) == len(_buffer) else _buffer[:])\n                    del _buffer[:]\n\n            # Awaiting a read until"))

# ---- C04 -----------------------------------------------------------------
M("c04_no_frame_validate", ["C04"],
  ("lomond/frame_parser.py", "                frame.validate()\n", "                pass\n"))
M("c04_no_mask_check", ["C04"],
  ("lomond/frame_parser.py", "        if frame.mask:\n", "        if False:\n"))
M("c04_no_nothing_to_continue_check", ["C04"],
  ("lomond/stream.py", "                if frame.is_continuation and not self._frames:", "                if False:"))
M("c04_no_expected_continuation_check", ["C04"],
  ("lomond/stream.py", "                if not frame.is_continuation and self._frames:", "                if False:"))
M("c04_1005_allowed", ["C04"],
  ("lomond/status.py", "        1004, 1005, 1006, 1014, 1015, 1016", "        1004, 1006, 1014, 1015, 1016"))
M("c04_revert_fix_control_length", ["C04"],
  ("lomond/frame_parser.py", "                if frame.is_control and payload_length > 125:", "                if False:"))
M("c04_no_disconnect_after_protocol_error", ["C04"],
  ("lomond/websocket.py", "            self.close(Status.PROTOCOL_ERROR, six.text_type(error))\n            self.force_disconnect()",
   "            self.close(Status.PROTOCOL_ERROR, six.text_type(error))"))
M("c04_rsv3_ignored", ["C04"],
  ("lomond/frame.py", "        if self.rsv1 or self.rsv2 or self.rsv3:", "        if self.rsv1 or self.rsv2:"))
M("c04_compressed_rsv2_ignored", ["C04"],
  ("lomond/frame.py", "        if self.rsv2 or self.rsv3:", "        if self.rsv3:"))
M("c04_payload_too_large_off_by_one", ["C04"],
  ("lomond/frame_parser.py", "if payload_length > 0x7fffffffffffffff:", "if payload_length > 0x8000000000000000:"))
M("c04_close_1_byte_ok", ["C04"],
  ("lomond/message.py", "        if len(payload) == 1:", "        if len(payload) == 1 and payload != b'\\x03':"))
M("c04_opcode_0xb_not_reserved", ["C04"],
  ("lomond/opcode.py", "    Opcode.RESERVED6,\n", ""))
M("c04_validate_order_swapped", ["C04"],
  ("lomond/frame.py", """        self.validate_reserved_bits()
        if is_reserved(self.opcode):
            raise errors.ProtocolError(
                "opcode is reserved"
            )
""", """        if is_reserved(self.opcode):
            raise errors.ProtocolError(
                "opcode is reserved"
            )
        self.validate_reserved_bits()
"""), equivalent=True)

# ---- C05 -----------------------------------------------------------------
M("c05_dfa_allow_surrogates", ["C05"],
  ("lomond/utf8validator.py", "    0xa, 0x3, 0x3, 0x3, 0x3, 0x3, 0x3, 0x3, 0x3, 0x3, 0x3, 0x3, 0x3, 0x4, 0x3, 0x3,  # e0..ef",
   "    0xa, 0x3, 0x3, 0x3, 0x3, 0x3, 0x3, 0x3, 0x3, 0x3, 0x3, 0x3, 0x3, 0x3, 0x3, 0x3,  # e0..ef"))
M("c05_dfa_allow_f5", ["C05"],
  ("lomond/utf8validator.py", "    0xb, 0x6, 0x6, 0x6, 0x5, 0x8, 0x8, 0x8,", "    0xb, 0x6, 0x6, 0x6, 0x5, 0x6, 0x8, 0x8,"))
M("c05_dfa_allow_c1", ["C05"],
  ("lomond/utf8validator.py", "    8, 8, 2, 2, 2, 2, 2, 2, 2, 2, 2, 2, 2, 2, 2, 2, 2, 2, 2, 2, 2, 2, 2, 2, 2, 2, 2, 2, 2, 2, 2, 2,  # c0..df",
   "    8, 2, 2, 2, 2, 2, 2, 2, 2, 2, 2, 2, 2, 2, 2, 2, 2, 2, 2, 2, 2, 2, 2, 2, 2, 2, 2, 2, 2, 2, 2, 2,  # c0..df"))
M("c05_no_validator_reset_at_message_end", ["C05"],
  ("lomond/frame_parser.py", "            self._utf8_validator.reset()\n", "            pass\n"),
  equivalent=True)  # a message that ends mid-character is fatal anyway, otherwise the state is already 'accept'
M("c05_close_reason_not_validated", ["C05"],
  ("lomond/message.py", "            if not is_valid:", "            if False:"),
  ("lomond/message.py", "                reason = reason_bytes.decode('utf-8')", "                reason = reason_bytes.decode('utf-8', 'replace')"))
M("c05_revert_fix_is_text", ["C05"],
  ("lomond/frame_parser.py", "        if frame.fin and not frame.is_control:\n            self._is_text = False", "        if frame.fin:\n            self._is_text = False"))
M("c05_validator_reset_per_frame", ["C05"],
  ("lomond/frame_parser.py", "            and frame.fin\n            and (frame.is_text or frame.is_continuation)", "            and (frame.is_text or frame.is_continuation)"))
M("c05_no_incremental_validation", ["C05"],
  ("lomond/frame_parser.py", "        if self._compression:\n            return self.read(length)", "        if True:\n            return self.read(length)"))
M("c05_validate_twice", ["C05"],
  ("lomond/message.py", "            text = payload.decode('utf-8')\n", "            text = payload.decode('utf-8')\n            text.encode('utf-8')\n"), equivalent=True)

# ---- C02 -----------------------------------------------------------------
M("c02_frames_in_reply_read_dropped", ["C02"],
  ("lomond/parser.py", "                    data = _buffer[sep_index:]\n", "                    data = b''\n"))
M("c02_remaining_not_saved", ["C02"],
  ("lomond/parser.py", "                    self._awaiting.remaining = remaining\n", "                    pass\n"))
M("c02_validator_reset_per_chunk", ["C02", "C05"],
  ("lomond/parser.py", "        valid, _, _, _ = self.utf8_validator.validate(bytes(data))",
   "        self.utf8_validator.reset()\n        valid, _, _, _ = self.utf8_validator.validate(bytes(data))"))
M("c02_zero_copy_single_read", ["C02"],
  ("lomond/parser.py", "                    self._awaiting = self._gen.send(_buffer[:])\n                    del _buffer[:]\n\n            # Awaiting a read until",
   "                    self._awaiting = self._gen.send(chunk if len(chunk) == len(_buffer) else _buffer[:])\n                    del _buffer[:]\n\n            # Awaiting a read until"))
M("c02_sep_search_only_new_chunk", ["C02", "C10"],
  ("lomond/parser.py", "                sep_index = _buffer.find(sep)\n", "                sep_index = _buffer.find(sep, max(0, len(_buffer) - len(chunk)))\n"))
M("c02_max_bytes_checked_per_read", ["C02"],
  ("lomond/parser.py", "                    _check_length(len(_buffer))\n", "                    _check_length(len(_buffer) + 4)\n"))
M("c02_header_split_strict", ["C02"],
  ("lomond/parser.py", "                chunk = data[pos:pos + remaining]\n", "                chunk = data[pos:pos + min(remaining, 4096)]\n"),
  equivalent=True)

# ---- C03 -----------------------------------------------------------------
M("c03_len_le_126", ["C03"],
  ("lomond/frame.py", "        if length < 126:", "        if length <= 126:"))
M("c03_16bit_boundary", ["C03"],
  ("lomond/frame.py", "        elif length < (1 << 16):", "        elif length < (1 << 16) + 1:"))
M("c03_xor_lanes_swapped", ["C03"],
  ("lomond/mask.py", "    data[2::4] = data[2::4].translate(c)\n    data[3::4] = data[3::4].translate(d)",
   "    data[2::4] = data[2::4].translate(d)\n    data[3::4] = data[3::4].translate(c)"))
M("c03_mask_bit_omitted_for_empty", ["C03"],
  ("lomond/frame.py", "        mask_bit = 1 << 7 if mask else 0", "        mask_bit = 1 << 7 if (mask and len(payload)) else 0"))
M("c03_rsv1_always", ["C03", "C06"],
  ("lomond/session.py", "        frame = Frame(opcode, payload=bytearray(data))\n        self.write(frame.to_bytes(), closing=frame.is_close)",
   "        frame = Frame(opcode, payload=bytearray(data), rsv1=1 if opcode == 2 else 0)\n        self.write(frame.to_bytes(), closing=frame.is_close)"))
M("c03_payload_not_copied", ["C03"],
  ("lomond/websocket.py", "        if not isinstance(data, bytes):\n            raise TypeError('data argument must be bytes')\n        if compress and self.state.compression:",
   "        if not isinstance(data, (bytes, bytearray)):\n            raise TypeError('data argument must be bytes')\n        if compress and self.state.compression:"))
M("c03_revert_fix_close_reason", ["C03"],
  ("lomond/websocket.py", "        if len(frame_bytes) > 125:\n            raise ValueError('close reason should be <= 123 bytes')\n", ""))
M("c03_ping_limit_126", ["C03"],
  ("lomond/websocket.py", "            raise ValueError('ping data should be <= 125 bytes')", "            pass"))
M("c03_json_kwargs_and_obj_merged", ["C03"],
  ("lomond/websocket.py", "        if kwargs and _obj is not Ellipsis:", "        if kwargs and _obj is None:"))
M("c03_close_code_little_endian", ["C03"],
  ("lomond/frame.py", "    _pack_close_code = struct.Struct(b'!H').pack", "    _pack_close_code = struct.Struct(b'<H').pack"))
M("c03_header_and_body_two_writes", ["C03"],
  ("lomond/session.py", "        frame = Frame(opcode, payload=bytearray(data))\n        self.write(frame.to_bytes(), closing=frame.is_close)",
   "        frame = Frame(opcode, payload=bytearray(data))\n        _b = frame.to_bytes()\n        self.write(_b, closing=frame.is_close)"),
  equivalent=True)
M("c03_text_encoded_surrogatepass", ["C03"],
  ("lomond/websocket.py", "        payload = text.encode('utf-8')", "        payload = text.encode('utf-8', 'surrogatepass')"))
  # not equivalent: a text with a lone surrogate is then written as invalid UTF-8 instead of raising

# ---- C07 -----------------------------------------------------------------
M("c07_no_ready_gate", ["C07"],
  ("lomond/session.py", "            if self._ready:\n                return self._regular(", "            if True:\n                return self._regular("),
  ("lomond/session.py", "        self._next_ping = None\n        self._last_pong = None", "        self._next_ping = 0.0\n        self._last_pong = 0.0"))
M("c07_disconnected_in_finally", ["C07"],
  ("lomond/session.py", "            self._close_socket()\n            selector.close()", "            self._close_socket()\n            selector.close()\n            if websocket.is_closing:\n                yield events.Disconnected('closed')"))
M("c07_while_true", ["C08"],
  ("lomond/session.py", "            while not websocket.is_closed:", "            while True:"))
M("c07_eof_ignored_when_closing", ["C07", "C08"],
  ("lomond/session.py", "                        if websocket.is_active:\n                            self._socket_fail('connection lost')\n                        break",
   "                        if websocket.is_active:\n                            self._socket_fail('connection lost')\n                        continue"))
M("c07_rejected_returns_early", ["C07"],
  ("lomond/session.py", "                            self._on_event(event, auto_pong)\n                            yield event\n",
   "                            self._on_event(event, auto_pong)\n                            yield event\n                            if event.name == 'rejected':\n                                return\n"))
M("c07_ready_twice_on_second_response", ["C07"],
  ("lomond/stream.py", "            self._parsed_response = True\n", "            self._parsed_response = bool(header_data)\n"),
  equivalent=True)
M("c07_connect_fail_then_connected", ["C07", "C09"],
  ("lomond/session.py", "            self._close_socket()\n            yield events.ConnectFail('request failed; {}'.format(error))\n            return",
   "            self._close_socket()\n            yield events.ConnectFail('request failed; {}'.format(error))"))
M("c07_poll_before_ready_after_reject", ["C07"],
  ("lomond/session.py", "        if event.name == 'ready':\n            self._on_ready()\n            self._ready = True",
   "        if event.name in ('ready', 'rejected'):\n            self._on_ready()\n            self._ready = True"))

# ---- C08 -----------------------------------------------------------------
M("c08_closing_flag_not_set", ["C08"],
  ("lomond/websocket.py", "                self._send_close(code, reason)\n                self.state.closing = True",
   "                self._send_close(code, reason)"),
  equivalent=True)   # since fix 343d88b the session sets the flag inside the write lock; this assignment is redundant
M("c08_echo_normal_code", ["C08"],
  ("lomond/websocket.py", "            self.close(message.code, message.reason)", "            self.close(Status.NORMAL, message.reason)"))
M("c08_writes_allowed_while_closing", ["C08"],
  ("lomond/session.py", "            if self.websocket.is_closing:\n", "            if False:\n"))
M("c08_eof_while_closing_not_graceful", ["C08"],
  ("lomond/session.py", "                        if websocket.is_active:\n                            self._socket_fail('connection lost')",
   "                        if not websocket.is_closed:\n                            self._socket_fail('connection lost')"))
M("c08_no_break_after_closed", ["C08"],
  ("lomond/websocket.py", "                if self.is_closed:\n                    break\n\n        except errors.CriticalProtocolError",
   "                if False:\n                    break\n\n        except errors.CriticalProtocolError"),
  equivalent=True)   # nothing is generated after the server's reply Close, so behaviour is identical
M("c08_closed_event_without_state", ["C08"],
  ("lomond/websocket.py", "            self.state.closed = True\n            self.state.closing = False\n", "            self.state.closing = False\n"))
M("c08_closing_event_after_echo", ["C08"],
  ("lomond/websocket.py", "            yield events.Closing(message.code, message.reason)\n            self.close(message.code, message.reason)",
   "            self.close(message.code, message.reason)\n            yield events.Closing(message.code, message.reason)"))
M("c08_close_reason_dropped", ["C08"],
  ("lomond/frame.py", "        payload_bytes = cls._pack_close_code(status) + reason", "        payload_bytes = cls._pack_close_code(status) + reason[:20]"))
M("c08_stop_delivering_when_closing", ["C08"],
  ("lomond/websocket.py", "                    elif message.is_binary:\n                        yield events.Binary(message.data)",
   "                    elif message.is_binary and not self.is_closing:\n                        yield events.Binary(message.data)"))
M("c08_socket_not_closed_after_closed", ["C08"],
  ("lomond/session.py", "            # it was a graceful exit.\n            self._close_socket()", "            # it was a graceful exit.\n            pass"),
  equivalent=True)   # since fix 1875f4e run()'s finally closes the socket on every path

# ---- C14 -----------------------------------------------------------------
M("c14_pong_after_yield", ["C14"],
  ("lomond/session.py", "                            self._on_event(event, auto_pong)\n                            yield event\n",
   "                            yield event\n                            self._on_event(event, auto_pong)\n"))
M("c14_pong_payload_dropped", ["C14"],
  ("lomond/session.py", "            self.websocket.send_pong(event.data)", "            self.websocket.send_pong(event.data[:100])"))
M("c14_pong_on_pong", ["C14"],
  ("lomond/session.py", "        elif event.name == 'pong':\n            self._on_pong(event)",
   "        elif event.name == 'pong':\n            self._on_pong(event)\n            self._send_pong(event)"))
M("c14_auto_pong_ignored", ["C14"],
  ("lomond/session.py", "            if auto_pong:\n                self._send_pong(event)", "            if True:\n                self._send_pong(event)"))
M("c14_pong_error_propagates", ["C14"],
  ("lomond/session.py", "            self.websocket.send_pong(event.data)\n        except errors.WebSocketError:",
   "            self.websocket.send_pong(event.data)\n        except errors.WebSocketClosing:"))
M("c14_pong_only_first_ping_per_read", ["C14"],
  ("lomond/session.py", "        elif event.name == 'ping':\n            if auto_pong:",
   "        elif event.name == 'ping' and event.data != getattr(self, '_lp', None):\n            self._lp = event.data\n            if auto_pong:"))
M("c14_pong_while_closing_raises_to_loop", ["C14"],
  ("lomond/session.py", "        except errors.WebSocketError:\n            # In case the websocket has gone away\n            pass",
   "        except errors.TransportFail:\n            # In case the websocket has gone away\n            pass"))

# ---- C09 -----------------------------------------------------------------
M("c09_recv_error_not_translated", ["C09"],
  ("lomond/session.py", "        except socket.error as error:\n            log.debug('error in _recv', exc_info=True)",
   "        except socket.timeout as error:\n            log.debug('error in _recv', exc_info=True)"),
  equivalent=True)   # the catch-all in run() still turns it into a non-graceful Disconnected
M("c09_is_active_inverted", ["C09"],
  ("lomond/session.py", "                        if websocket.is_active:\n                            self._socket_fail('connection lost')",
   "                        if not websocket.is_active:\n                            self._socket_fail('connection lost')"))
M("c09_address_loop_breaks", ["C09"],
  ("lomond/session.py", "                log.debug('socket error connecting to %r; %s', sa, error)\n                sock.close()\n                sock = None\n                continue",
   "                log.debug('socket error connecting to %r; %s', sa, error)\n                sock.close()\n                sock = None\n                break"))
M("c09_no_catch_all", ["C09"],
  ("lomond/session.py", "        except Exception as error:  # pragma: no cover\n            # It pays to be paranoid.",
   "        except ZeroDivisionError as error:  # pragma: no cover\n            # It pays to be paranoid."))
M("c09_write_lets_exceptions_through", ["C09"],
  ("lomond/session.py", "            except Exception as error:\n                log.warning('WebSocket send error; %s', error)",
   "            except ZeroDivisionError as error:\n                log.warning('WebSocket send error; %s', error)"))
M("c09_socket_kept_on_socket_fail", ["C09"],
  ("lomond/session.py", "            # exception. The result is we are disconnected.\n            self._close_socket()", "            # exception. The result is we are disconnected.\n            pass"),
  equivalent=True)   # since fix 1875f4e run()'s finally closes the socket on every path
M("c09_connect_non_socket_error_escapes", ["C09"],
  ("lomond/session.py", "        except Exception as error:\n            log.error('error connecting to %s; %s', url, error)\n            yield events.ConnectFail('{}'.format(error))\n            return",
   "        except ZeroDivisionError as error:\n            log.error('error connecting to %s; %s', url, error)\n            yield events.ConnectFail('{}'.format(error))\n            return"))
M("c09_request_failure_leaves_socket", ["C09"],
  ("lomond/session.py", "        except errors.WebSocketError as error:\n            self._close_socket()\n            yield events.ConnectFail('request failed",
   "        except errors.WebSocketError as error:\n            yield events.ConnectFail('request failed"))
M("c09_eof_mid_handshake_is_graceful", ["C09"],
  ("lomond/session.py", "                        if websocket.is_active:\n                            self._socket_fail('connection lost')",
   "                        if websocket.is_active and self._ready:\n                            self._socket_fail('connection lost')"))
M("c09_ping_failure_propagates", ["C09"],
  ("lomond/session.py", "                self.websocket.send_ping()\n            except errors.WebSocketError:\n                pass",
   "                self.websocket.send_ping()\n            except errors.WebSocketUnavailable:\n                pass"),
  equivalent=True)   # ends as a non-graceful Disconnected via the catch-all: allowed by the statement

# ---- C13 -----------------------------------------------------------------
M("c13_no_generator_exit_handler", ["C13"],
  ("lomond/websocket.py", "            if self.state is state:\n                self.on_disconnect()\n",
   "            if self.state is state:\n                self.on_disconnect()\n            raise\n"),
  equivalent=True)
M("c17_revert_fix_stale_generator", ["C17"],
  ("lomond/websocket.py", "            if self.state is state:\n                self.on_disconnect()\n",
   "            if True:\n                self.on_disconnect()\n"))
M("c17_stale_generator_never_disconnects", ["C13"],
  ("lomond/websocket.py", "            if self.state is state:\n                self.on_disconnect()\n",
   "            if self.state is not state:\n                self.on_disconnect()\n"),
  equivalent=True)  # run()'s own finally still closes the socket and the selector: C13 holds
M("c13_no_selector_close", ["C13"],
  ("lomond/session.py", "            self._close_socket()\n            selector.close()", "            self._close_socket()"))
M("c13_revert_fix_finally", ["C13"],
  ("lomond/session.py", "            # A no-op unless the consumer abandoned the generator\n            self._close_socket()\n", ""))
M("c13_revert_fix_connected", ["C13"],
  ("lomond/session.py", "        except GeneratorExit:\n            # The consumer stopped iterating, don't leak the socket\n            self._close_socket()\n            raise",
   "        except GeneratorExit:\n            raise"))
M("c13_close_only_if_ready", ["C13"],
  ("lomond/session.py", "            # A no-op unless the consumer abandoned the generator\n            self._close_socket()\n",
   "            # A no-op unless the consumer abandoned the generator\n            if self._ready:\n                self._close_socket()\n"),
  equivalent=True)   # before Ready every in-loop event is yielded from feed(), whose GeneratorExit handler closes the socket

# ---- C10 -----------------------------------------------------------------
M("c10_no_accept_check", ["C10"],
  ("lomond/websocket.py", "        if accept_header.lower() != challenge.lower():", "        if False:"))
M("c10_no_status_check", ["C10"],
  ("lomond/websocket.py", "        if response.status_code != 101:", "        if response.status_code is None:"))
M("c10_key_reused_across_connects", ["C10", "C17"],
  ("lomond/websocket.py", "        self.state = self.State()\n\n    @classmethod", "        self.state = self.State()\n        self._key0 = self.state.key\n\n    @classmethod"),
  ("lomond/websocket.py", "        \"\"\"Reset the state.\"\"\"\n        self.state = self.State()", "        \"\"\"Reset the state.\"\"\"\n        self.state = self.State()\n        self.state.key = self._key0"))
M("c10_no_header_size_limit", ["C10"],
  ("lomond/frame_parser.py", "                b\"\\r\\n\\r\\n\", max_bytes=16 * 1024", "                b\"\\r\\n\\r\\n\", max_bytes=None"))
M("c10_accept_prefix_compare", ["C10"],
  ("lomond/websocket.py", "        if accept_header.lower() != challenge.lower():", "        if accept_header.lower()[:20] != challenge.lower()[:20]:"))
M("c10_no_upgrade_check", ["C10"],
  ("lomond/websocket.py", "        if upgrade_header != 'websocket':", "        if False:"))
M("c10_upgrade_startswith", ["C10"],
  ("lomond/websocket.py", "        if upgrade_header != 'websocket':", "        if not upgrade_header.startswith('websocket'):"))
M("c10_query_dropped", ["C10"],
  ("lomond/websocket.py", "        if _url.query:\n", "        if _url.query and _url.path:\n"))
M("c10_header_limit_off_by_one", ["C10"],
  ("lomond/parser.py", "        if self.max_bytes is not None and pos > self.max_bytes:", "        if self.max_bytes is not None and pos >= self.max_bytes:"))
M("c10_status_line_prefix_match", ["C10"],
  ("lomond/response.py", "        if len(status_code) == 3 and status_code.isdigit():\n            self.status_code = int(status_code)",
   "        if status_code[:3].isdigit():\n            self.status_code = int(status_code[:3])"))
M("c10_revert_fix_status_token", ["C10", "C19"],
  ("lomond/response.py", "        if len(status_code) == 3 and status_code.isdigit():\n            self.status_code = int(status_code)\n        else:\n            self.status_code = None",
   "        try:\n            self.status_code = int(status_code)\n        except ValueError:\n            self.status_code = None"))
M("c10_revert_fix_ipv6_host", ["C10"],
  ("lomond/websocket.py", "        self._host = '[{}]'.format(self.host) if ':' in self.host else self.host", "        self._host = self.host"))
M("c19_connect_target_without_brackets", ["C19"],
  ("lomond/session.py", "            self.websocket._host, self.websocket.port,", "            self.websocket.host, self.websocket.port,"))
M("c10_folded_header_dropped", ["C10"],
  ("lomond/response.py", "                if header:\n                    headers[header].append(' ')\n                    headers[header].append(line.lstrip())",
   "                if header:\n                    pass"))
M("c10_header_names_case_sensitive", ["C10"],
  ("lomond/response.py", "                header = header.lower().strip()", "                header = header.strip()"))
M("c10_accept_strip_equals", ["C10"],
  ("lomond/websocket.py", "        if accept_header.lower() != challenge.lower():", "        if accept_header.lower().rstrip('=') != challenge.lower().rstrip('='):"))
M("c10_protocol_from_request", ["C10"],
  ("lomond/websocket.py", "        protocol = response.get('sec-websocket-protocol')", "        protocol = response.get('sec-websocket-protocol') or (self.protocols[0] if self.protocols else None)"))

# ---- C06 -----------------------------------------------------------------
M("c06_wbits_swapped", ["C06"],
  ("lomond/compression.py", "        decompress_wbits = cls.get_wbits(options, \"server_max_window_bits\")\n        compress_wbits = cls.get_wbits(options, \"client_max_window_bits\")",
   "        decompress_wbits = cls.get_wbits(options, \"client_max_window_bits\")\n        compress_wbits = cls.get_wbits(options, \"server_max_window_bits\")"))
M("c06_reset_flags_swapped", ["C06"],
  ("lomond/compression.py", "        reset_decompress = \"server_no_context_takeover\" in options\n        reset_compress = \"client_no_context_takeover\" in options",
   "        reset_decompress = \"client_no_context_takeover\" in options\n        reset_compress = \"server_no_context_takeover\" in options"))
M("c06_tail_strip_5", ["C06"],
  ("lomond/compression.py", "        )[:-4]", "        )[:-5]"))
M("c06_tail_not_stripped", ["C06"],
  ("lomond/compression.py", "        )[:-4]", "        )"))
M("c06_tail_not_appended", ["C06"],
  ("lomond/compression.py", "        data.append(self._decompressobj.decompress(b\"\\x00\\x00\\xff\\xff\"))", "        pass"))
M("c06_always_reset_compressor", ["C06"],
  ("lomond/compression.py", "        if self.reset_compress:\n            self.reset_compressor()", "        if True:\n            self.reset_compressor()"),
  equivalent=True)
M("c06_never_reset_compressor", ["C06"],
  ("lomond/compression.py", "        if self.reset_compress:\n            self.reset_compressor()", "        if False:\n            self.reset_compressor()"))
M("c06_never_reset_decompressor", ["C06"],
  ("lomond/compression.py", "        if self.reset_decompress or self._decompressobj.unused_data:", "        if self._decompressobj.unused_data:"),
  equivalent=True)  # a decompressor that keeps history the peer will not use decodes the same bytes
M("c06_revert_fix_bfinal", ["C06"],
  ("lomond/compression.py", "        if self.reset_decompress or self._decompressobj.unused_data:", "        if self.reset_decompress:"))
M("c06_bfinal_reset_only_with_takeover_flag", ["C06"],
  ("lomond/compression.py", "        if self.reset_decompress or self._decompressobj.unused_data:",
   "        if self.reset_decompress and not self._decompressobj.unused_data or False:"))
M("c06_compress_window_always_15", ["C06"],
  ("lomond/compression.py", "            -max(9, self.compress_wbits)", "            -15"))
M("c06_only_first_frame_inflated", ["C06"],
  ("lomond/compression.py", "                self._decompressobj.decompress(frame.payload)\n                for frame in frames\n            ]\n\n        data.append",
   "                self._decompressobj.decompress(frame.payload)\n                for frame in frames[:1]\n            ]\n\n        data.append"))
M("c06_compress_false_ignored", ["C06"],
  ("lomond/websocket.py", "        payload = text.encode('utf-8')\n        if compress and self.state.compression:", "        payload = text.encode('utf-8')\n        if self.state.compression:"))
M("c06_wbits_7_allowed", ["C06"],
  ("lomond/compression.py", "        if wbits < 8 or wbits > 15:", "        if wbits < 7 or wbits > 15:"))
M("c06_quoted_value_not_unquoted", ["C06"],
  ("lomond/extension.py", "        value = value.strip().strip('\"')", "        value = value.strip()"))
M("c06_decompress_error_swallowed", ["C06"],
  ("lomond/message.py", "            raise errors.CriticalProtocolError(\n                'unable to decompress payload'\n            )", "            return b''"))

# ---- C15 -----------------------------------------------------------------
M("c15_poll_gt", ["C15"],
  ("lomond/session.py", "_time - self._poll_start >= poll:", "_time - self._poll_start > poll:"),
  equivalent=True)   # gaps stay within [p, 2p]
M("c15_ping_ge", ["C15"],
  ("lomond/session.py", "        if ping_rate and session_time > self._next_ping:", "        if ping_rate and session_time >= self._next_ping:"))
M("c15_ping_floor", ["C15"],
  ("lomond/session.py", "                math.ceil(session_time / ping_rate) * ping_rate", "                math.floor(session_time / ping_rate) * ping_rate"))
M("c15_ping_timeout_ge", ["C15"],
  ("lomond/session.py", "            if time_since_last_pong > ping_timeout:", "            if time_since_last_pong >= ping_timeout:"))
M("c15_close_timeout_gt", ["C15"],
  ("lomond/session.py", "            if session_time >= sent_close_time + close_timeout:", "            if session_time > sent_close_time + close_timeout:"),
  equivalent=True)   # forced one loop cycle later at most: still inside [c, c+p]
M("c15_last_pong_not_updated", ["C15"],
  ("lomond/session.py", "        self._last_pong = self.session_time\n", "        pass\n"))
M("c15_sent_close_time_not_recorded", ["C15"],
  ("lomond/websocket.py", "                self.state.sent_close_time = self.session.session_time", "                pass"))
M("c15_poll_start_never_updated", ["C15"],
  ("lomond/session.py", "            self._poll_start = _time\n            return True", "            if self._poll_start is None: self._poll_start = _time\n            return True"))
M("c15_wait_twice_poll", ["C15"],
  ("lomond/session.py", "                readable, max_bytes = selector.wait(self.BUFFER_SIZE, poll)", "                readable, max_bytes = selector.wait(self.BUFFER_SIZE, poll * 2)"))
M("c15_times_absolute_not_since_ready", ["C15"],
  ("lomond/session.py", "        self._start_time = time.time()\n", "        self._start_time = 0.0\n"))
M("c15_next_ping_plus_rate", ["C15"],
  ("lomond/session.py", "                math.ceil(session_time / ping_rate) * ping_rate\n            )", "                math.ceil(session_time / ping_rate) * ping_rate + ping_rate\n            )"))
M("c15_close_timeout_ignores_zero", ["C15"],
  ("lomond/session.py", "        if close_timeout:\n            sent_close_time", "        if close_timeout is not None:\n            sent_close_time"))
M("c15_ping_timeout_counts_any_message", ["C15"],
  ("lomond/session.py", "        elif event.name == 'pong':\n            self._on_pong(event)", "        elif event.name in ('pong', 'text'):\n            self._on_pong(event)"))

# ---- C16 -----------------------------------------------------------------
M("c16_linear_backoff", ["C16"],
  ("lomond/persist.py", "min(random_wait, 2**retries)", "min(random_wait, 2*retries)"))
M("c16_no_reset_on_ready", ["C16"],
  ("lomond/persist.py", "                retries = 0\n", "                pass\n"))
M("c16_no_cap", ["C16"],
  ("lomond/persist.py", "min(random_wait, 2**retries)", "2**retries"))
M("c16_stop_on_connect_fail", ["C16"],
  ("lomond/persist.py", "            yield event\n        wait_for", "            yield event\n            if event.name == 'connect_fail' and retries > 6:\n                return\n        wait_for"))
M("c16_backoff_delay_differs", ["C16"],
  ("lomond/persist.py", "        if exit_event.wait(wait_for):", "        if exit_event.wait(min(wait_for, 60)):"))
M("c16_ping_timeout_not_passed", ["C16"],
  ("lomond/persist.py", "poll=poll, ping_rate=ping_rate, ping_timeout=ping_timeout):", "poll=poll, ping_rate=ping_rate):"))
M("c16_reset_on_connected", ["C16"],
  ("lomond/persist.py", "            if event.name == 'ready':", "            if event.name in ('ready', 'connected'):"))
M("c16_two_backoffs_after_reject", ["C16"],
  ("lomond/persist.py", "        yield events.BackOff(wait_for)\n", "        yield events.BackOff(wait_for)\n        if retries == 3:\n            yield events.BackOff(wait_for)\n"))
M("c16_retries_start_at_one", ["C16"],
  ("lomond/persist.py", "    retries = 0\n    random_wait", "    retries = 1\n    random_wait"))
M("c16_exit_checked_before_backoff", ["C16"],
  ("lomond/persist.py", "        yield events.BackOff(wait_for)\n        if exit_event.wait(wait_for):\n            break",
   "        if exit_event.wait(wait_for):\n            break\n        yield events.BackOff(wait_for)"))

# ---- C17 -----------------------------------------------------------------
M("c17_connect_without_reset", ["C17"],
  ("lomond/websocket.py", "        self.reset()\n        self.state.session = session = session_class(self)",
   "        if self.state.session is None or self.state.closed:\n            self.reset()\n        self.state.session = session = session_class(self)"))
M("c17_stream_shared_across_states", ["C17"],
  ("lomond/websocket.py", "            self.stream = WebsocketStream()\n", "            self.stream = WebSocket._shared_stream = getattr(WebSocket, '_shared_stream', None) or WebsocketStream()\n"))
M("c17_class_level_frames", ["C17"],
  ("lomond/stream.py", "        self._frames = []\n", "        self._frames = WebsocketStream._all_frames\n"),
  ("lomond/stream.py", "    def __init__(self):\n        self.frame_parser = ClientFrameParser()", "    _all_frames = []\n\n    def __init__(self):\n        self.frame_parser = ClientFrameParser()"))
M("c17_compression_kept", ["C17"],
  ("lomond/websocket.py", "        self.state = self.State()\n\n    __iter__ = connect", "        _old = self.state.compression\n        self.state = self.State()\n        self.state.compression = _old\n\n    __iter__ = connect"))
M("c17_closing_flag_kept", ["C17"],
  ("lomond/websocket.py", "        self.state = self.State()\n\n    __iter__ = connect", "        _old = self.state.closing\n        self.state = self.State()\n        self.state.closing = _old\n\n    __iter__ = connect"))
M("c17_sent_close_time_kept", ["C17"],
  ("lomond/websocket.py", "        self.state = self.State()\n\n    __iter__ = connect", "        _old = self.state.sent_close_time\n        self.state = self.State()\n        self.state.sent_close_time = _old\n\n    __iter__ = connect"))
M("c17_validator_shared", ["C17"],
  ("lomond/frame_parser.py", "        self._utf8_validator = Utf8Validator()\n", "        self._utf8_validator = FrameParser._v = getattr(FrameParser, '_v', None) or Utf8Validator()\n"))
M("c17_session_reused", ["C17"],
  ("lomond/websocket.py", "        self.state.session = session = session_class(self)", "        self._sess = getattr(self, '_sess', None) or session_class(self)\n        self.state.session = session = self._sess"))

# ---- C19 -----------------------------------------------------------------
M("c19_bigger_proxy_reads", ["C19"],
  ("lomond/session.py", "            data = sock.recv(1024)\n", "            data = sock.recv(4096)\n"),
  equivalent=True)
M("c19_get_sent_with_connect", ["C19"],
  ("lomond/session.py", "        sock.sendall(proxy_request)\n", "        sock.sendall(proxy_request)\n        if not self.websocket.is_secure:\n            sock.sendall(self.websocket.build_request())\n"))
M("c19_any_2xx_accepted", ["C19"],
  ("lomond/proxy.py", "        if response.status_code != 200:", "        if response.status_code is None or not (200 <= response.status_code < 300):"))
M("c19_any_status_accepted", ["C19"],
  ("lomond/proxy.py", "        if response.status_code != 200:", "        if response.status_code is None:"))
M("c19_wrong_scheme_proxy", ["C19"],
  ("lomond/session.py", "            'https' if self.websocket.is_secure else 'http'\n        )\n        if proxy:", "            'http' if self.websocket.is_secure else 'https'\n        )\n        if proxy:"))
M("c19_fallback_to_other_scheme", ["C19"],
  ("lomond/session.py", "        if proxy:\n            sock = self._connect_proxy(proxy)", "        proxy = proxy or self.websocket.proxies.get('http')\n        if proxy:\n            sock = self._connect_proxy(proxy)"))
M("c19_empty_mapping_uses_env", ["C19"],
  ("lomond/websocket.py", "        self.proxies = self._detect_proxies() if proxies is None else proxies", "        self.proxies = self._detect_proxies() if not proxies else proxies"))
M("c19_connect_target_without_port", ["C19"],
  ("lomond/proxy.py", "        'CONNECT {}:{} HTTP/1.1'.format(host, port).encode('utf-8')", "        ('CONNECT {}:{} HTTP/1.1'.format(host, port) if port not in (80, 443) else 'CONNECT {} HTTP/1.1'.format(host)).encode('utf-8')"))
M("c19_proxy_default_port_8080", ["C19"],
  ("lomond/session.py", "            (443 if _proxy_url.scheme == 'https' else 80)\n        )\n        try:", "            (443 if _proxy_url.scheme == 'https' else 8080)\n        )\n        try:"))
M("c19_direct_fallback_on_proxy_failure", ["C19"],
  ("lomond/session.py", "        if proxy:\n            sock = self._connect_proxy(proxy)\n            proxy_url = proxy",
   "        if proxy:\n            try:\n                sock = self._connect_proxy(proxy)\n                proxy_url = proxy\n            except Exception:\n                sock = self._connect_sock(self.websocket.host, self.websocket.port, ssl=self.websocket.is_secure)\n                proxy_url = None\n        if False:\n            pass"))
M("c19_connected_proxy_not_reported", ["C19"],
  ("lomond/session.py", "        yield events.Connected(url, proxy=proxy)", "        yield events.Connected(url, proxy=None)"))
M("c19_first_read_decides", ["C19"],
  ("lomond/session.py", "        while response is None:\n            data = sock.recv(1024)\n            for response in proxy_parser.feed(data):\n                break",
   "        data = sock.recv(1024)\n        for response in proxy_parser.feed(data):\n            break"))
M("c19_wss_not_wrapped_after_tunnel", ["C19"],
  ("lomond/session.py", "            self._wrap_socket(sock, self.websocket.host)\n            if self.websocket.is_secure else", "            self._wrap_socket(sock, self.websocket.host)\n            if False else"))

# ---- C18 -----------------------------------------------------------------
_NO_SHORTCUT = ("lomond/selectors.py", "        if hasattr(self._socket, 'pending') and self._socket.pending():\n            return True, self._socket.pending()\n", "")
_SMALL_BUFFER = ("lomond/session.py", "    BUFFER_SIZE = 64 * 1024", "    BUFFER_SIZE = 4 * 1024")
M("c18_no_pending_shortcut", ["C18"], _NO_SHORTCUT)
  # unobservable with OpenSSL's record-at-a-time reads and a 64 KiB buffer (pending() stays 0), but it
  # breaks with a TLS layer that reads ahead (the "eager" model variant) and with a smaller buffer
M("c18_small_buffer", ["C18"], _SMALL_BUFFER,
  equivalent=True)  # smaller reads, but the pending() short-cut keeps draining the TLS layer
M("c18_small_buffer_and_no_shortcut", ["C18"], _NO_SHORTCUT, _SMALL_BUFFER)   # two sites that each look fine alone
M("c18_pending_returns_max_bytes", ["C18"],
  ("lomond/selectors.py", "            return True, self._socket.pending()", "            return True, max_bytes"),
  equivalent=True)  # reading up to max_bytes from the TLS layer returns the buffered record just the same
M("c18_selector_byte_count_ignored", ["C18"],
  ("lomond/session.py", "                    data = self._recv(max_bytes)", "                    data = self._recv(4096)"),
  equivalent=True)  # smaller reads, but the loop keeps reading while data is readable or pending
M("c18_small_reads_pending_after_wait", ["C18"],
  ("lomond/session.py", "                    data = self._recv(max_bytes)", "                    data = self._recv(4096)"),
  ("lomond/selectors.py", "        if hasattr(self._socket, 'pending') and self._socket.pending():\n            return True, self._socket.pending()\n        readable = self.wait_readable(timeout=timeout)\n        return readable, max_bytes",
   "        readable = self.wait_readable(timeout=timeout)\n        if not readable and hasattr(self._socket, 'pending') and self._socket.pending():\n            return True, self._socket.pending()\n        return readable, max_bytes"))

# ---- C11 -----------------------------------------------------------------
M("c11_no_write_lock", ["C11"],
  ("lomond/session.py", "    def write(self, data, closing=False):\n        \"\"\"Send raw data.\"\"\"\n        with self._lock:",
   "    def write(self, data, closing=False):\n        \"\"\"Send raw data.\"\"\"\n        if True:"))
M("c11_revert_fix_compress_lock", ["C11"],
  ("lomond/websocket.py", "            with self.state.compress_lock:\n                _payload = self.state.compression.compress(payload)\n                self.session.send_compressed(Opcode.TEXT, _payload)",
   "            if True:\n                _payload = self.state.compression.compress(payload)\n                self.session.send_compressed(Opcode.TEXT, _payload)"))
M("c11_compress_lock_binary_only_missing", ["C11"],
  ("lomond/websocket.py", "            with self.state.compress_lock:\n                _payload = self.state.compression.compress(data)\n                self.session.send_compressed(Opcode.BINARY, _payload)",
   "            if True:\n                _payload = self.state.compression.compress(data)\n                self.session.send_compressed(Opcode.BINARY, _payload)"))
M("c11_compress_locked_write_unlocked", ["C11"],
  ("lomond/websocket.py", "            with self.state.compress_lock:\n                _payload = self.state.compression.compress(payload)\n                self.session.send_compressed(Opcode.TEXT, _payload)",
   "            with self.state.compress_lock:\n                _payload = self.state.compression.compress(payload)\n            self.session.send_compressed(Opcode.TEXT, _payload)"))
M("c11_shared_frame_buffer", ["C11"],
  ("lomond/session.py", "        frame = Frame(opcode, payload=bytearray(data))\n        self.write(frame.to_bytes(), closing=frame.is_close)",
   "        buf = self.__dict__.setdefault('_fb', bytearray())\n        buf[:] = data\n        frame = Frame(opcode, payload=buf)\n        self.write(frame.to_bytes(), closing=frame.is_close)"))
M("c11_lock_released_between_header_and_body", ["C11"],
  ("lomond/session.py", "                self._sock.sendall(data)\n            except socket.error as error:\n                log.debug('WebSocket send error; %s', error)",
   "                self._sock.sendall(data[:2])\n                self._lock.release()\n                self._lock.acquire()\n                self._sock.sendall(data[2:])\n            except socket.error as error:\n                log.debug('WebSocket send error; %s', error)"))
M("c11_rlock_instead_of_lock", ["C11", "C12"],
  ("lomond/session.py", "        self._lock = threading.Lock()", "        self._lock = threading.RLock()"),
  equivalent=True)

# ---- C12 -----------------------------------------------------------------
M("c12_revert_fix_flag_in_lock", ["C12"],
  ("lomond/session.py", "            if closing:\n", "            if False:\n"))
M("c12_revert_fix_state_order", ["C12"],
  ("lomond/websocket.py", "            self.state.closed = True\n            self.state.closing = False\n", "            self.state.closing = False\n            self.state.closed = True\n"))
M("c12_revert_fix_check_order", ["C12"],
  ("lomond/session.py", "            if self.websocket.is_closing:\n                log.debug('WebSocket closing; data not sent')\n                raise errors.WebSocketClosing('data not sent')\n            if self.websocket.is_closed:\n                log.debug('WebSocket closed; data not sent')\n                raise errors.WebSocketClosed('data not sent')\n",
   "            if self.websocket.is_closed:\n                log.debug('WebSocket closed; data not sent')\n                raise errors.WebSocketClosed('data not sent')\n            if self.websocket.is_closing:\n                log.debug('WebSocket closing; data not sent')\n                raise errors.WebSocketClosing('data not sent')\n"))
M("c12_flag_before_send_unlocked", ["C08"],
  ("lomond/websocket.py", "                self._send_close(code, reason)\n                self.state.closing = True", "                self.state.closing = True\n                self._send_close(code, reason)"))
M("c12_state_checked_outside_lock", ["C12"],
  ("lomond/session.py", "        with self._lock:\n            if self._sock is None:\n                log.debug('WebSocket unavailable; data not sent')\n                raise errors.WebSocketUnavailable('not connected')",
   "        if self.websocket.is_closing:\n            raise errors.WebSocketClosing('data not sent')\n        with self._lock:\n            if self._sock is None:\n                log.debug('WebSocket unavailable; data not sent')\n                raise errors.WebSocketUnavailable('not connected')"),
  ("lomond/session.py", "            # Check closing before closed, the event loop moves the\n            # state from closing to closed without taking the lock\n            if self.websocket.is_closing:\n                log.debug('WebSocket closing; data not sent')\n                raise errors.WebSocketClosing('data not sent')\n", ""))
