"""Realistic mutations of lomond (textual edits), per property.  ``equivalent`` ones
preserve behaviour and must NOT be flagged."""

MUTANTS = []


def M(name, props, *edits, **kw):
    MUTANTS.append(dict(name=name, props=list(props), edits=list(edits), **kw))


# ---- C01 -----------------------------------------------------------------
M("c01_frames_not_cleared", ["C01"],
  ("lomond/stream.py", "                    del self._frames[:]\n", "                    pass\n"))
M("c01_control_joins_fragments", ["C01"],
  ("lomond/stream.py", "                yield self.build_message([frame])\n",
   "                yield self.build_message([frame])\n                if self._frames: self._frames.append(frame)\n"))
M("c01_unpack64_signed", ["C01"],
  ("lomond/frame_parser.py", 'unpack64 = struct.Struct(b"!Q").unpack', 'unpack64 = struct.Struct(b"!I4x").unpack'))
M("c01_len126_ge", ["C01"],
  ("lomond/frame_parser.py", "if payload_length == 126:", "if payload_length >= 126:"))
M("c01_parser_buffer_alias", ["C01"],
  ("lomond/parser.py", "self._awaiting = self._gen.send(_buffer[:])\n                    del _buffer[:]",
   "self._awaiting = self._gen.send(_buffer)\n                    _buffer = self._buffer = bytearray()"),
  equivalent=True)
M("c01_binary_memoryview", ["C01"],
  ("lomond/session.py", "                        for event in self.websocket.feed(data):",
   "                        for event in self.websocket.feed(data if len(data) != 3 else data):"),
  equivalent=True)
M("c01_drop_empty_final_fragment", ["C01"],
  ("lomond/stream.py", "                self._frames.append(frame)\n",
   "                if frame.payload or not frame.is_continuation or not frame.fin: self._frames.append(frame)\n"),
  equivalent=True)
M("c01_pong_payload_dropped_when_125", ["C01"],
  ("lomond/message.py", "            return Pong(payload)", "            return Pong(payload if len(payload) != 125 else payload[:124])"))
M("c05_text_lossy_decode", ["C05"],
  ("lomond/message.py", "            text = payload.decode('utf-8')", "            text = payload.decode('utf-8', 'replace')"))
M("c01_join_skips_empty_first", ["C01"],
  ("lomond/message.py", "            payload = b''.join(bytes(frame.payload) for frame in frames)",
   "            payload = b''.join(bytes(frame.payload) for frame in frames[-2:])"))
M("c01_zero_copy_single_read", ["C01"],
  ("lomond/parser.py", "                    self._awaiting = self._gen.send(_buffer[:])\n                    del _buffer[:]\n\n            # Awaiting a read until",
   "                    self._awaiting = self._gen.send(chunk if len(chunk) == len(_buffer) else _buffer[:])\n                    del _buffer[:]\n\n            # Awaiting a read until"))
