#!/venv/bin/python
"""Sensitivity suite: apply one textual mutation to a scratch copy of /repo/lomond
(outside /repo and /verif), run the property's check against it via VERIF_REPO, report
killed / survived, remove the copy.

  selftest/mutate.py list
  selftest/mutate.py run [--tier quick] [--tests] [name-or-property ...]

A mutant whose ``equivalent`` flag is set must leave the check green (false-alarm guard).
"""
import json
import os
import shutil
import subprocess
import sys
import tempfile
import time

HERE = os.path.dirname(os.path.abspath(__file__))
VERIF = os.path.dirname(HERE)
REPO = "/repo"
sys.path.insert(0, HERE)
from mutants import MUTANTS  # noqa: E402


def apply(m, root):
    for file, old, new in m["edits"]:
        path = os.path.join(root, file)
        src = open(path).read()
        if src.count(old) != 1:
            raise SystemExit("mutant %s: pattern occurs %d times in %s" % (m["name"], src.count(old), file))
        open(path, "w").write(src.replace(old, new))


def run_one(m, tier, with_tests):
    root = tempfile.mkdtemp(prefix="lomond_mut_", dir="/tmp")
    try:
        shutil.copytree(os.path.join(REPO, "lomond"), os.path.join(root, "lomond"))
        apply(m, root)
        tests_ok = None
        if with_tests:
            shutil.copytree(os.path.join(REPO, "tests"), os.path.join(root, "tests"))
            for f in ("setup.cfg", "tox.ini"):
                if os.path.exists(os.path.join(REPO, f)):
                    shutil.copy(os.path.join(REPO, f), root)
            r = subprocess.run(["/venv/bin/python", "-m", "pytest", "-q", "-x", "-p", "no:cacheprovider",
                                "--timeout=900", "tests"], cwd=root, capture_output=True, text=True,
                               env=dict(os.environ, PYTHONPATH=root))
            tests_ok = r.returncode == 0
        out = []
        for prop in m["props"]:
            t0 = time.time()
            r = subprocess.run([os.path.join(VERIF, "check"), prop, "--tier", tier],
                               capture_output=True, text=True,
                               env=dict(os.environ, VERIF_REPO=root, VERIF_NO_EVIDENCE="1"))
            sig = ""
            for line in r.stdout.splitlines():
                if line.startswith("failure signature:"):
                    sig = line.split(":", 1)[1].strip()
            out.append((prop, r.returncode, sig, time.time() - t0, r.stderr[-400:] if r.returncode == 2 else ""))
        return tests_ok, out
    finally:
        shutil.rmtree(root, ignore_errors=True)


def main(argv):
    if not argv or argv[0] == "list":
        for m in MUTANTS:
            print("%-40s %s %s" % (m["name"], ",".join(m["props"]), "(equivalent)" if m.get("equivalent") else ""))
        return 0
    tier = "quick"
    with_tests = False
    sel = []
    args = argv[1:]
    while args:
        a = args.pop(0)
        if a == "--tier":
            tier = args.pop(0)
        elif a == "--tests":
            with_tests = True
        else:
            sel.append(a)
    bad = 0
    results = []
    for m in MUTANTS:
        if sel and not (m["name"] in sel or set(m["props"]) & set(sel)):
            continue
        tests_ok, out = run_one(m, tier, with_tests)
        for prop, rc, sig, dt, err in out:
            if sel and prop not in sel and m["name"] not in sel:
                continue
            want = 0 if m.get("equivalent") else 1
            status = "OK " if rc == want else "BAD"
            if rc != want:
                bad += 1
            print("%s %-40s %s rc=%d want=%d %-28s %.0fs tests=%s %s" % (
                status, m["name"], prop, rc, want, sig, dt, tests_ok, err.replace("\n", " | ")))
            sys.stdout.flush()
            results.append({"mutant": m["name"], "property": prop, "rc": rc, "want": want,
                            "signature": sig, "tests_pass": tests_ok})
    with open(os.path.join(HERE, "last_results.json"), "w") as fh:
        json.dump(results, fh, indent=1)
    return 1 if bad else 0


if __name__ == "__main__":
    sys.exit(main(sys.argv[1:]))
