"""Verify that every mutant's patterns still occur exactly once in /repo (fixes move code)."""
import os, sys
sys.path.insert(0, os.path.dirname(os.path.abspath(__file__)))
from mutants import MUTANTS
bad = 0
for m in MUTANTS:
    src = {}
    for file, old, new in m["edits"]:
        text = src.get(file) or open(os.path.join("/repo", file)).read()
        if text.count(old) != 1:
            print("STALE", m["name"], file, text.count(old)); bad += 1
        src[file] = text.replace(old, new)
print(len(MUTANTS), "mutants,", bad, "stale")
