#!/bin/sh
# Offline setup: make sure hypothesis and six are importable by the interpreter the
# checks use; otherwise install them from the local wheelhouse into /verif/.deps.
# (The checks put /verif/.deps LAST on sys.path, so what the interpreter already has wins.)
here=$(cd "$(dirname "$0")" && pwd)
if [ -x /venv/bin/python ]; then PY=/venv/bin/python; else PY=python3; fi
if "$PY" -c "import hypothesis, six" 2>/dev/null; then
  "$PY" -c "import hypothesis, six; print('deps ok: hypothesis', hypothesis.__version__, '(interpreter)')"
  exit 0
fi
if ! PYTHONPATH="$here/.deps" "$PY" -c "import hypothesis, six" 2>/dev/null; then
  # nothing there yet, or something left behind by another interpreter version: start afresh
  rm -rf "$here/.deps"
  mkdir -p "$here/.deps"
  "$PY" -m pip install --no-index --quiet --find-links /opt/veriftools/wheels \
      --target "$here/.deps" hypothesis six || exit 1
fi
PYTHONPATH="$here/.deps" "$PY" -c "import hypothesis, six; print('deps ok: hypothesis', hypothesis.__version__, '(/verif/.deps)')"
