#!/bin/sh
# Offline setup: make sure hypothesis and six are importable by the interpreter the
# checks use; otherwise install them from the local wheelhouse into /verif/.deps.
here=$(cd "$(dirname "$0")" && pwd)
if [ -x /venv/bin/python ]; then PY=/venv/bin/python; else PY=python3; fi
if ! PYTHONPATH="$here/.deps" "$PY" -c "import hypothesis, six" 2>/dev/null; then
  mkdir -p "$here/.deps"
  "$PY" -m pip install --no-index --quiet --find-links /opt/veriftools/wheels \
      --target "$here/.deps" hypothesis six || exit 1
fi
PYTHONPATH="$here/.deps" "$PY" -c "import hypothesis, six; print('deps ok: hypothesis', hypothesis.__version__)"
